"""Writes /verif/MANIFEST.json from the table below (run after adding a check)."""
import json
import os

ROOT = os.path.dirname(os.path.dirname(os.path.abspath(__file__)))

TRUSTED = ("Trusted base: TLC's evaluation of the specification; the harness projection Abs/Concretize "
           "(harness/val.go, ~450 lines) and drivers; Go's reflect/regexp/strconv. Values outside the model universe "
           "(|n| >= 2^29, non-dyadic floats, general regular expressions) are not generated.")

CLAIMS = {
    "C01": dict(
        category="model_checking",
        text=("The language definition is the TLA+ big-step semantics Sem!Eval. TLC enumerates every well-typed "
              "expression of seven families up to a node budget (derivation machine Gen.tla) and, beyond it, random "
              "deep derivations; for each expression and each environment assignment TLC computes value, failure and "
              "call log, and the real library (Compile with Env, optimizer on and off, Run) must reproduce them. "
              "Bounded-exhaustive over programs x inputs is the right level for a claim about every nesting of "
              "code-generation schemes; the verdict always comes from a real execution."),
        design_ref="DESIGN.md section 6 C01",
        technique="TLA+ reference semantics; TLC-enumerated cases replayed into the real compiler+VM",
        note=TRUSTED),
}

NOT_YET = "check not built yet in this round (see DESIGN.md section 6 for the planned TLA+ formulation)"


def main():
    props = [json.loads(l)["id"] for l in open(os.path.join(ROOT, "properties.jsonl"))]
    checks = []
    for p in props:
        if p not in CLAIMS:
            continue
        c = CLAIMS[p]
        checks.append({
            "property_id": p,
            "quick_cmd": "bin/check %s --tier quick" % p,
            "thorough_cmd": "bin/check %s --tier thorough" % p,
            "evidence_file": "/verif/evidence/%s.json" % p,
            "replay_cmd_template": "bin/check %s --replay {path}" % p,
            "engine": "tlc+harness",
            "level_claimed": {"category": c["category"], "text": c["text"], "design_ref": c["design_ref"]},
            "level_note": c["note"],
            "technique": c["technique"],
        })
    man = {
        "version": 1,
        "setup_cmd": "bin/setup",
        "hooks": {
            "guard": "verif",
            "enable": "go build -tags verif (the harness module replaces github.com/antonmedv/expr with /repo)",
            "baseline_off_cmd": "cd /repo && GOFLAGS=-mod=mod GOPROXY=off GOSUMDB=off go test -vet=off -count=1 ./...",
            "source_commits": HOOK_COMMITS,
            "add_only": True,
        },
        "engines": [
            {"name": "tlc+harness", "path": "/verif/bin/check",
             "serves_properties": [c["property_id"] for c in checks],
             "kind_free_text": "explicit TLA+ specification (spec/*.tla) checked and enumerated by TLC; cases replayed "
                               "into, and traces validated from, the Go library built from /repo"}],
        "checks": checks,
        "not_applicable": [{"property_id": p, "reason": NOT_APPLICABLE.get(p, NOT_YET)} for p in props if p not in CLAIMS],
        "notes": "exit 0 held / 1 violation (VIOLATION line) / 2 infrastructure failure (never a verdict). "
                 "Known findings: known_findings.json (read-only at run time).",
    }
    with open(os.path.join(ROOT, "MANIFEST.json"), "w") as fh:
        json.dump(man, fh, indent=1)
        fh.write("\n")


HOOK_COMMITS = []
NOT_APPLICABLE = {}

if __name__ == "__main__":
    main()

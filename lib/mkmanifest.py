"""Writes /verif/MANIFEST.json from the table below (run after adding a check)."""
import json
import os

ROOT = os.path.dirname(os.path.dirname(os.path.abspath(__file__)))

TRUSTED = ("Trusted base: TLC's evaluation of the specification; the harness projection Abs/Concretize "
           "(harness/val.go, ~450 lines) and drivers; Go's reflect/regexp/strconv. Values outside the model universe "
           "(|n| >= 2^29, non-dyadic floats, general regular expressions) are not generated.")

def _c(category, text, ref, technique):
    return dict(category=category, text=text, design_ref=ref, technique=technique, note=TRUSTED)


CLAIMS = {
    "C01": _c("model_checking",
              "The language definition is the TLA+ big-step semantics Sem!Eval. TLC enumerates every well-typed "
              "expression of seven families up to a node budget (derivation machine Gen.tla) and, beyond it, random "
              "deep derivations; for each expression and each environment assignment TLC computes value, failure and "
              "call log, and the real library (Compile with Env, optimizer on and off, Run) must reproduce them. "
              "Bounded-exhaustive over programs x inputs is the right level for a claim about every nesting of "
              "code-generation schemes; the verdict always comes from a real execution.",
              "DESIGN.md section 6 C01", "TLA+ reference semantics; TLC-enumerated cases replayed into the real compiler+VM"),
    "C02": _c("model_checking",
              "The same TLC-enumerated expressions and assignments, each compiled with the optimizer on and off (with and "
              "without a declared type): both programs must fail together or return ObsEq values; only a constant integer "
              "division/modulo by zero (Sem!HasConstDivZero) may be rejected by the optimizer alone. A disagreement is "
              "attributed to a known finding only when the specification under that named deviation predicts the "
              "observed outcome. The ConstExpr clause is not exercised.",
              "DESIGN.md section 6 C02", "TLC-enumerated programs x inputs; differential real runs judged against Sem!Eval"),
    "C03": _c("model_checking",
              "Types.tla holds the reference typing rules (TypeOf, FullyTyped) and Sem.tla the reference semantics with "
              "failure classes. Soundness: for every TLC-enumerated expression that is statically typed throughout x every "
              "assignment, a program the real checker accepts may fail only where Sem!Eval fails, a successful result must "
              "be assignable to the type the real checker reports, and be exactly bool/int64/float64 under the result "
              "directives. Rejection: MC_Err.tla injects each of 28 single violations of a typing rule at every leaf of "
              "every expression of three families, and violations by the element type of the enclosing closure at every "
              "leaf inside nested closures over other element types; the real Compile must reject all. Known deviations are attributed by "
              "specification-computed tags or by the named deviation of the semantics.",
              "DESIGN.md section 6 C03", "TLA+ typing rules + reference semantics; TLC-enumerated typed programs run for real; TLA+ fault injection compiled for real"),
    "C04": _c("exploration",
              "Pipeline.tla models Compile/Eval/Run as a machine over stages with the three recover boundaries of the code "
              "and checks NoEscape on every sensible combination of options, expression class and run-time environment "
              "(56,226 configurations); each configuration is instantiated with concrete options, sources and environment "
              "values and executed, and every text of the lexical class alphabets, every single-fault ill-typed program "
              "and every rejected token sequence is pushed through Parse, Compile and Eval: each call must return exactly "
              "one of result and error, never panic, never hang. Exploration level: the quantifier over all byte strings is "
              "covered by class alphabets up to a length bound and by structured stress, not by coverage-guided fuzzing.",
              "DESIGN.md section 6 C04", "TLA+ pipeline model enumerating option/expression/environment configurations; every configuration and text executed under recover and a watchdog"),
    "C05": _c("model_checking",
              "VM.tla + Compiler.tla model the machine and the code generator; TLC checks on every expression x assignment "
              "that the specified compiler's program is well-formed, never underflows and exits clean, also with a small "
              "operand range where jump offsets overflow (must be rejected). Bound to the code three ways: real bytes vs "
              "specified bytes (drift diagnostic), real runs traced through the verif hook and validated step by step by "
              "TLC against VM!Step with WellFormed evaluated on the real bytes (of every program of four corpora, traced or "
              "not), and the overflowing shapes inflated to real size and compiled/run for real.",
              "DESIGN.md section 6 C05", "TLA+ machine model; TLC invariants; trace validation of hooked real runs; small-scope shapes inflated"),
    "C06": _c("model_checking",
              "Sem!Eval carries the allocation counter; TLC checks BudgetBounds and Conforms on the machine model and emits, "
              "for every allocating expression x assignment x budget 1..7, whether the reference refuses the run; the real "
              "VM with vm.MemoryBudget set must refuse exactly those runs. Optimized programs are run too, with the bound "
              "itself as the oracle: the collection elements reachable from a successful result whose storage is neither a "
              "constant of the program nor part of the environment may not exceed the budget.",
              "DESIGN.md section 6 C06", "TLA+ allocation accounting; TLC cases x budgets replayed into the real VM"),
    "C07": _c("model_checking",
              "History.tla: the state is a history of runs on one reusable machine; TLC checks FreshEquiv and "
              "PrologueResets in every reachable history up to length 3/4 over a pool mixing successes, failures inside "
              "loops and allocating runs, and emits each history; each is replayed on ONE real vm.VM value and every run "
              "compared with the fresh-machine outcome (specified and real). Random histories of length 60/200 cross "
              "the budget many times over.",
              "DESIGN.md section 6 C07", "TLA+ history machine; TLC-enumerated histories replayed on one real VM value"),
    "C08": _c("model_checking",
              "Conc.tla: N machines with private VM state step over shared programs, environments and the global budget, "
              "one instruction per step; TLC checks Isolation and SharedUntouched on every interleaving of two machines "
              "(three in the thorough tier) and produces random interleavings, which are replayed on real goroutines with "
              "the verif hook as the scheduler gate, so that the real VMs interleave at instruction granularity in exactly "
              "the specified order: every run must return what it returns alone and the shared program and environment "
              "must be unchanged. Concurrent Compile calls and free-running runs of fresh shared programs are additionally "
              "executed in a -race build; a race report naming the library is a failure (the detector is an observer: it "
              "sees the schedules that ran, the model checker and the gate supply the interleavings that matter).",
              "DESIGN.md section 6 C08", "TLA+ interleaving model; TLC schedules replayed through a scheduler gate on real goroutines; race detector as observer"),
    "C09": _c("exploration",
              "The specification makes Compile and Run functions of their arguments; on the TLC-enumerated corpora each "
              "source is compiled twice (programs compared byte for byte, constant for constant, by value and Go type) and "
              "each program run twice per assignment: equal results and call logs, and program, environment value and "
              "sample environment deep-equal to pristine copies afterwards; every valid operator table of OpTable.tla "
              "(several candidates per operator) is compiled six times with the options built anew. Exploration level: "
              "determinism across processes or map-iteration orders is sampled, not proven.",
              "DESIGN.md section 6 C09", "TLC-enumerated programs x inputs; repeated real compile/run compared"),
    "C10": _c("model_checking",
              "Walk.tla defines the promised traversal (WalkSeq) and the effect of a patching visitor (Patch) on the "
              "specification's trees; TLC checks WalkBalanced and emits, for every expression of six families up to the "
              "node budget, the event sequence and the patched source. The real ast.Walk over the real parser's tree must "
              "produce exactly that sequence, and Compile under a real Patch visitor must behave as Compile of the "
              "patched source on every assignment. The clients the property names are bound too: the operator patcher must "
              "reach every occurrence wherever it sits and whatever was walked before it (Types!Overload on the families "
              "ovl and ovlarg, OpTable.tla expressions with several occurrences), also when a Patch visitor repairs a "
              "failed first type check.",
              "DESIGN.md section 6 C10", "TLA+ traversal specification; TLC-enumerated trees walked and patched for real"),
    "C11": _c("model_checking",
              "Grammar.tla is the reference grammar: the binding-power and associativity tables, a printer writing only "
              "the parentheses the tables require, a printer writing all of them, and the reference parser RefParse over "
              "token sequences. TLC checks on every syntax tree of five families up to the node budget that RefParse maps "
              "both printings back to the tree (RoundTrip) and that every parenthesis of the minimal printing is "
              "required (ParensRequired), and emits each tree with five texts (minimal/all parentheses x none/single/"
              "irregular multi-line spacing) and every token sequence up to the length bound over three alphabets with "
              "RefParse's verdict, and every sentence of three families with one token deleted, doubled or swapped with "
              "its neighbour (near misses); the real parser.Parse must return exactly that tree, or reject where the reference "
              "rejects. Bounded-exhaustive over trees and token sequences is the right level: a changed binding power "
              "or associativity alters only the pairings it affects, all of which are enumerated.",
              "DESIGN.md section 6 C11", "TLA+ reference grammar (printer + precedence-climbing parser); TLC-enumerated trees and token sequences parsed for real"),
    "C12": _c("model_checking",
              "Lexer.tla is the lexer as a state machine (one action per state function of state.go over the lexer "
              "structure of lexer.go) and Lexical.tla the lexical reference (what a quoted literal denotes, what a number "
              "spelling denotes, where each token of a laid-out sequence starts). TLC runs the machine on every text of "
              "eight families and checks in every state that the tracked location is the position computed from the text "
              "alone (LocInv), that every token's location is the position of its first rune (TokenLocInv), and that the "
              "machine yields what the reference assigns on all literals and layouts (Agrees, QuoteInverts). Every text "
              "is then given to the real lexer.Lex and parser.Parse: token kinds, byte-exact values, positions and literal "
              "values must be the specified ones (on the family of number spellings followed by a continuation the machine's "
              "token kinds and values are verdicts too). Bounded-exhaustive over values x spellings x layouts is the right "
              "level: a misclassified spelling or a wrongly decoded escape affects only the values it concerns.",
              "DESIGN.md section 6 C12", "TLA+ lexer machine + lexical reference; TLC invariants; every enumerated text lexed and parsed for real"),
    "C13": _c("model_checking",
              "MC_Err.tla injects one fault at a known token of a well-typed expression - an unknown name, a type "
              "mismatch at one operator (compile time), or an operation that fails for the given environment while the "
              "reference semantics evaluates everything else successfully (run time) - and Grammar.tla computes the "
              "(line, column) of the fault's anchor token under a one-line layout, an irregular multi-line layout and "
              "behind multi-byte runes; MC_Front.tla gives every token sequence the reference grammar rejects at a token. "
              "TLC enumerates trees x leaves x faults x environments; the real Compile / Run / Parse error must be a "
              "*file.Error naming exactly that position, inside the source, with the named source line as snippet.",
              "DESIGN.md section 6 C13", "TLA+ fault injection with token positions computed by the specification; every case compiled/run for real"),
    "C14": _c("model_checking",
              "Prim!Arith is the promotion rule of the property; TLC enumerates every pair of the 12 numeric kinds x every "
              "arithmetic/comparison operator x 1-3 values per kind (extrema included), plus nested random combinations; the "
              "real result must have the specified value and kind, and the kind the real checker reports.",
              "DESIGN.md section 6 C14", "TLA+ promotion rule; exhaustive kind pairs x operators replayed"),
    "C15": _c("model_checking",
              "The TLC-enumerated expressions and assignments compiled against the struct type, a pointer to it, a map with "
              "the same members, without any type, and evaluated with Eval: all variants that compile and succeed must "
              "return ObsEq values; among the struct, pointer and map shapes (the same type information) a run that fails in "
              "one shape and succeeds in another is a changed result too.",
              "DESIGN.md section 6 C15", "TLC-enumerated programs x inputs; differential real runs across type information"),
    "C16": _c("model_checking",
              "Resolve.tla states Go's selector rule (shallowest depth, ambiguity, method sets by receiver kind, exported "
              "names) over struct shapes with embedded structs; TLC enumerates every legal shape up to the member bound in "
              "every declaration order, checks ShadowingIsShallowest, and emits for each shape and name what the rule "
              "says (plus eight map environment shapes: named or not, interface{} or int elements, with or without a method). "
              "The shapes are written out as Go types, built against /repo and populated; the rule is first "
              "compared with Go's own resolution (reflect) on every name, then the real checker's verdict, the real "
              "run-time lookup, the value a call returns (a method and a function-valued field of the same name return "
              "different values) and the generated documentation are compared with each other and with the rule.",
              "DESIGN.md section 6 C16", "TLA+ selector rule; TLC-enumerated struct shapes generated as Go types; checker, VM and docgen compared on each"),
    "C17": _c("model_checking",
              "Types!Overload states which occurrences of `+` become the call Add(l, r) (both operands statically int, by "
              "Types!TypeOf, which TLC checks against the generator's typing in every state); for every TLC-enumerated "
              "expression x assignment the real library compiled with Operator(+, Add) must reproduce value, failure and "
              "the call log of the rewritten tree - so each overloaded occurrence calls Add once with its operands in order "
              "wherever it sits, and every other occurrence keeps its built-in meaning. OpTable.tla models the operator "
              "table as a machine (one Operator entry appended per step) with Valid and Resolve (first fitting entry in "
              "order); TLC checks Monotone and Stable and emits every table up to the entry bound: an invalid table must be "
              "rejected by the real Compile wherever the bad entry sits, a valid one must send each occurrence to the "
              "function Resolve designates (call log, value).",
              "DESIGN.md section 6 C17", "TLA+ overload rewrite; TLC-enumerated cases replayed with a real operator mapping"),
    "C18": _c("model_checking",
              "The identities are stated in TLA+ (LawPairs) over the reference semantics and checked by TLC in every state "
              "(LawsHold); both sides of each instance (closures nested to depth 2/3) are compiled and run for real on "
              "every assignment and must succeed with equal values wherever the reference evaluates both.",
              "DESIGN.md section 6 C18", "TLA+ identities checked by TLC on the reference semantics and on real runs"),
}

NOT_YET = "no check built in the time available: not claimed (DESIGN.md section 6 has the planned TLA+ formulation, section 7 the status)"


def main():
    props = [json.loads(l)["id"] for l in open(os.path.join(ROOT, "properties.jsonl"))]
    checks = []
    for p in props:
        if p not in CLAIMS:
            continue
        c = CLAIMS[p]
        checks.append({
            "property_id": p,
            "quick_cmd": "bin/check %s --tier quick" % p,
            "evidence_file": "/verif/evidence/%s.json" % p,
            "replay_cmd_template": "bin/check %s --replay {path}" % p,
            "engine": "tlc+harness",
            "level_claimed": {"category": c["category"], "text": c["text"], "design_ref": c["design_ref"]},
            "level_note": c["note"],
            "technique": c["technique"],
        })
        if p in THOROUGH_VALIDATED:
            checks[-1]["thorough_cmd"] = "bin/check %s --tier thorough" % p
    man = {
        "version": 1,
        "setup_cmd": "bin/setup",
        "hooks": {
            "guard": "verif",
            "enable": "go build -tags verif (the harness module replaces github.com/antonmedv/expr with /repo)",
            "baseline_off_cmd": "cd /repo && GOFLAGS=-mod=mod GOPROXY=off GOSUMDB=off go test -vet=off -count=1 ./...",
            "source_commits": HOOK_COMMITS,
            "add_only": True,
        },
        "engines": [
            {"name": "tlc+harness", "path": "/verif/bin/check",
             "serves_properties": [c["property_id"] for c in checks],
             "kind_free_text": "explicit TLA+ specification (spec/*.tla) checked and enumerated by TLC; cases replayed "
                               "into, and traces validated from, the Go library built from /repo"}],
        "checks": checks,
        "not_applicable": [{"property_id": p, "reason": NOT_APPLICABLE.get(p, NOT_YET)} for p in props if p not in CLAIMS],
        "notes": "exit 0 held / 1 violation (VIOLATION line) / 2 infrastructure failure (never a verdict). "
                 "Known findings: known_findings.json (read-only at run time).",
    }
    with open(os.path.join(ROOT, "MANIFEST.json"), "w") as fh:
        json.dump(man, fh, indent=1)
        fh.write("\n")


HOOK_COMMITS = ["44d0fad"]
# a thorough tier is registered only once it has been run to completion, quiet, on the unchanged tree
THOROUGH_VALIDATED = {"C01", "C02", "C03", "C04", "C05", "C06", "C07", "C08", "C09", "C10", "C11", "C12", "C13", "C14", "C15", "C16", "C17", "C18"}
NOT_APPLICABLE = {}

if __name__ == "__main__":
    main()

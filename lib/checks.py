"""Per-property checks: each property is a list of stages (see vf.py)."""
import concurrent.futures
import json
import os
import re
import subprocess
import time

import vf

GEN_SUBST = {
    "Leaves": ("<-", "F_Leaves"), "ElemLeaves": ("<-", "F_ElemLeaves"), "UnOps": ("<-", "F_UnOps"),
    "BinOps": ("<-", "F_BinOps"), "Props": ("<-", "F_Props"), "Meths": ("<-", "F_Meths"),
    "Funcs": ("<-", "F_Funcs"), "Builtins": ("<-", "F_Builtins"), "UseLen": ("<-", "F_UseLen"),
    "UseCond": ("<-", "F_UseCond"), "UseIdx": ("<-", "F_UseIdx"), "SliceShapes": ("<-", "F_SliceShapes"),
    "ArrLens": ("<-", "F_ArrLens"), "MapLens": ("<-", "F_MapLens"), "Guard": ("<-", "F_Guard"),
    "OrderGuard": ("<-", "F_OrderGuard"), "AnyColl": ("<-", "F_AnyColl"),
}


def gen_cfg(family, maxnodes, maxclosure=2, emit="cases", invariants=("Emit",), extra=None):
    if family == "nest":
        maxclosure = 3      # the family of closures nested three deep
    c = dict(GEN_SUBST)
    c.update(Family=family, EmitMode=emit, MaxNodes=maxnodes, MaxClosure=maxclosure)
    c.update(extra or {})
    return vf.cfg_text(c, invariants=invariants)


class Stage:
    """One stage: a TLC run (cases and/or model checking) + a harness driver."""

    def __init__(self, name, module, cfg, driver=None, modes=None, workers=1, simulate=None, depth=None,
                 timeout=900, extra_args=None, kind="replay", warm=True, func=None):
        self.name, self.module, self.cfg, self.driver = name, module, cfg, driver
        self.modes, self.workers, self.simulate, self.depth = modes, workers, simulate, depth
        self.timeout, self.extra_args, self.kind, self.warm, self.func = timeout, extra_args, kind, warm, func


class Acc:
    """Accumulates coverage over the stages of one check."""

    def __init__(self, prop, tier):
        self.prop, self.tier = prop, tier
        self.t0 = time.time()
        self.states = 0
        self.transitions = 0
        self.cases = 0
        self.execs = 0
        self.programs = 0
        self.nontrivial = 0
        self.failures = []
        self.samples = []
        self.stages = []
        self.skipped = {}
        self.extra = {}

    def add_tlc(self, name, st):
        self.states += st.get("distinct", 0)
        self.transitions += st.get("generated", 0)
        self.stages.append({"stage": name, "tlc_states": st.get("distinct", 0), "tlc_generated": st.get("generated", 0),
                            "cases": st.get("cases", 0), "tlc_wall_s": st.get("wall_s"), "cached": st.get("cached", False)})

    def add_summary(self, summ):
        self.cases += summ["cases"]
        self.execs += summ["executions"]
        self.programs += summ["programs"]
        self.nontrivial += summ["nontrivial"]
        for k, v in (summ.get("skipped") or {}).items():
            self.skipped[k] = self.skipped.get(k, 0) + v
        for k, v in (summ.get("stats") or {}).items():
            self.extra.setdefault("stats", {})
            self.extra["stats"][k] = self.extra["stats"].get(k, 0) + v
        if len(self.samples) < 6:
            self.samples += summ["samples"][:2]
        if self.stages:
            self.stages[-1].update(executions=summ["executions"], failures=summ["failures"])

    def coverage(self, rule, explanation=None):
        cov = {
            "states": max(self.states, 1), "transitions": max(self.transitions, 1),
            "traces_validated_against_impl": self.execs,
            "evaluations": max(self.execs, 1), "distinct_nontrivial": self.nontrivial,
            "programs": self.programs, "cases": self.cases,
            "rule": rule, "samples": self.samples[:6] or ["(none)"],
            "stages": self.stages, "skipped": self.skipped,
        }
        cov.update(self.extra)
        if explanation:
            cov["explanation"] = explanation
        return cov


def run_stage(acc, binary, s):
    if s.func:
        return s.func(acc, binary, s)
    with vf.Scratch(acc.prop + "-" + s.name) as d:
        cases = os.path.join(d, "cases.ndjson")
        st = vf.run_tlc(s.module, s.cfg, out_cases=cases, workers=s.workers, simulate=s.simulate, depth=s.depth,
                        timeout=s.timeout, name=acc.prop + "-" + s.name)
        acc.add_tlc(s.name, st)
        if s.kind == "mc":
            vf.log("[%s] stage %-22s tlc: %d states, %d generated (%ss%s)  design-level invariants hold" % (
                acc.prop, s.name, st.get("distinct", 0), st.get("generated", 0), st.get("wall_s"),
                ", cached" if st.get("cached") else ""))
            return
        fail = os.path.join(d, "fail.ndjson")
        summ = os.path.join(d, "sum.json")
        args = ["replay", "-prop", s.driver, "-in", cases, "-fail", fail, "-sum", summ]
        if s.modes:
            args += ["-modes", s.modes]
        args += s.extra_args or []
        sm, fs = replay_with_crash_recovery(binary, args, cases, d)
        acc.add_summary(sm)
        for f in fs:
            f["prop"] = acc.prop
            f["stage"] = s.name
        acc.failures += fs
        vf.log("[%s] stage %-22s tlc: %d states %d cases (%ss%s)  real executions: %d  failures: %d" % (
            acc.prop, s.name, st.get("distinct", 0), st.get("cases", 0), st.get("wall_s"),
            ", cached" if st.get("cached") else "", sm["executions"], sm["failures"]))


def replay_with_crash_recovery(binary, args, cases, d):
    """Run a replay driver.  If the harness process dies (a fatal error of the Go runtime cannot be recovered
    in-process, e.g. a stack overflow while the library formats a cyclic value), the case it died on is
    re-executed alone in a fresh process: if it dies again the case is recorded as a failing real execution
    (why = process-crash) and the replay resumes after it.  A death that does not reproduce is an
    infrastructure failure."""
    fail, summ, prog = os.path.join(d, "fail.ndjson"), os.path.join(d, "sum.json"), os.path.join(d, "progress")
    total, failures, start, crashes, restarts = None, [], 0, 0, 0

    def add(sm):
        nonlocal total
        if total is None:
            total = sm
            return
        for k in ("cases", "executions", "programs", "failures", "nontrivial"):
            total[k] += sm[k]
        for k in ("skipped", "stats"):
            for kk, v in (sm.get(k) or {}).items():
                total[k][kk] = total[k].get(kk, 0) + v

    while True:
        try:
            rc = vf.run_harness(binary, args + ["-from", str(start), "-progress", prog], ok=(0, 4))
            crashed = None
        except vf.Infra as e:
            rc = None
            try:
                crashed = int(open(prog).read().strip())
            except Exception:
                raise e
            if "fatal error" not in str(e) and "stack overflow" not in str(e) and "signal" not in str(e):
                raise
            try:
                vf.run_harness(binary, args + ["-only", str(crashed), "-progress", prog + ".1"])
                raise vf.Infra("the harness died on case %d but not when that case was re-executed alone\n%s" % (crashed, e))
            except vf.Infra as e2:
                if "re-executed alone" in str(e2):
                    raise
            crashes += 1
            if crashes > 8:
                raise vf.Infra("the harness keeps dying (%d cases)\n%s" % (crashes, e))
            line = None
            with open(cases) as fh:
                for i, l in enumerate(x for x in fh if x.strip()):
                    if i == crashed:
                        line = l
                        break
            c = json.loads(line) if line else {}
            m = re.search(r"fatal error: [^\n]*", str(e))
            failures.append({"why": "process-crash", "src": c.get("src"), "mode": "any", "case_index": crashed,
                             "got": {"panic": (m.group(0) if m else "the process died") + " (reproduced in a fresh process)"}})
        failures += vf.load_failures(fail)
        if crashed is not None:
            # partial results of the dead process: only its failure file survives
            start = crashed + 1
            continue
        sm = json.load(open(summ))
        add(sm)
        if rc == 4:
            # a real execution outlived the watchdog (recorded by the driver as a hang); it cannot be stopped inside the
            # process, so the replay continues in a fresh one after that case
            restarts += 1
            total["stats"]["process restarts after a hang"] = restarts
            if restarts < 25:
                start = sm["restart_at"] + 1
                continue
            total["stats"]["cases not explored after 25 hangs"] = 1
        total["failures"] = len(failures)
        total["cases"] += crashes
        return total, failures


def prefetch(stages):
    """Run the TLC jobs of the stages concurrently; the stage loop then finds
    their corpora in the cache (TLC results depend on the specification only)."""
    vf.prune_cache()
    jobs = [s for s in stages if s.module and not s.func and s.kind != "mc"]
    if len(jobs) < 2:
        return

    def one(s):
        try:
            vf.run_tlc(s.module, s.cfg, workers=s.workers, simulate=s.simulate, depth=s.depth, timeout=s.timeout,
                       name="pre-" + s.name)
        except vf.Infra:
            pass  # reported by the stage itself

    with concurrent.futures.ThreadPoolExecutor(max_workers=max(2, vf.NCPU // 2)) as ex:
        list(ex.map(one, jobs))


def run_check(prop, tier, stages, rule, level="model_checking", assumptions=None, race=False):
    acc = Acc(prop, tier)
    binary = vf.build_harness(race=race)
    only = os.environ.get("VERIF_ONLY")
    if not only:
        prefetch(stages)
    for s in stages:
        if only and not s.name.startswith(only):
            continue
        run_stage(acc, binary, s)
    cov = acc.coverage(rule)
    return vf.conclude(prop, tier, level, acc.t0, acc.failures, cov, assumptions=assumptions)


# ---------------------------------------------------------------------------
# C01

C01_FAMILIES = {
    "quick": [("arith", 4), ("logic", 4), ("string", 4), ("coll", 4), ("access", 4), ("builtin", 5), ("mixed", 4),
              ("calls", 5), ("inlit", 6), ("rng", 5), ("nest", 8), ("dyn", 5), ("pat", 5), ("inrng", 7)],
    "thorough": [("arith", 5), ("logic", 5), ("string", 5), ("coll", 5), ("access", 5), ("builtin", 6), ("mixed", 5),
                 ("calls", 6), ("inlit", 7), ("rng", 6), ("nest", 9), ("dyn", 6), ("pat", 6), ("inrng", 8)],
}
EVAL_ASSUME = ["harness Abs/Concretize projection (harness/val.go) is faithful",
               "TLC evaluates Sem!Eval as written",
               "values outside the model universe (|n| >= 2^29, non-dyadic floats, general regexps) are not generated"]
EVAL_RULE = ("every well-typed expression of each family up to the node budget (TLC breadth-first over the derivation "
             "machine Gen.tla; one derivation per tree, so cases are distinct by construction) x every assignment of "
             "the 1-6 values of each mentioned environment member; beyond the budget random derivations "
             "(tlc -simulate, seeded by VERIF_SEED); non-trivial = mentions an environment member, calls a function, "
             "or has >= 3 nodes")


def stages_C01(tier):
    out = []
    for fam, n in C01_FAMILIES[tier]:
        out.append(Stage("%s-n%d" % (fam, n), "MC_Expr", gen_cfg(fam, n), "C01", modes="struct:opt,struct:noopt"))
    sim_n = 300 if tier == "quick" else 4000
    for fam in ("mixed", "builtin", "access"):
        out.append(Stage("%s-sim" % fam, "MC_Expr", gen_cfg(fam, 12, maxclosure=3), "C01",
                         modes="struct:opt,struct:noopt", simulate=sim_n, depth=14, warm=False))
    return out


def check_C01(tier):
    return run_check("C01", tier, stages_C01(tier), EVAL_RULE, assumptions=EVAL_ASSUME)


# ---------------------------------------------------------------------------
# trace validation (direction B)

VM_VERDICT_FIELDS = ("underflow", "unclean-exit", "ill-formed-program")


def validate_traces(acc, name, trace_path, verdict_fields, record_sum=None, timeout=900):
    """Run Trace_VM.tla over a recorded trace file; mismatches on verdict_fields
    become failures, the others are counted as model drift (diagnostic)."""
    tcfg = vf.cfg_text({"TraceFile": "trace.ndjson"}, spec="TSpec",
                       invariants=("TNoUnderflow", "TMemoryNonNegative"))
    with vf.Scratch(acc.prop + "-" + name + "-tv") as d:
        out = os.path.join(d, "out.ndjson")
        st = vf.run_tlc("Trace_VM", tcfg, out_cases=out, workers=1, timeout=timeout,
                        extra_files={"trace.ndjson": open(trace_path, "rb").read()}, name=acc.prop + "-tv")
        done, mism = None, []
        for line in open(out):
            r = json.loads(line)
            if r.get("kind") == "done":
                done = r
            elif r.get("kind") == "mismatch":
                mism.append(r)
    if done is None:
        raise vf.Infra("trace validation did not consume the whole trace (%s)" % name)
    acc.add_tlc(name + "-validate", st)
    drift = acc.extra.setdefault("model_drift", {})
    nfail = 0
    for r in mism:
        if r["field"] in verdict_fields:
            nfail += 1
            acc.failures.append({"prop": acc.prop, "stage": name, "why": "trace:" + r["field"], "src": r["src"],
                                 "mode": r.get("mode"), "trace_run": r["run"], "at": r["at"],
                                 "want": r.get("want"), "got_field": r.get("got")})
        else:
            drift[r["field"]] = drift.get(r["field"], 0) + 1
    acc.execs += done["runs"]
    acc.nontrivial += done["runs"] - done["rejected"] if record_sum is None else 0
    acc.extra["trace_runs_validated"] = acc.extra.get("trace_runs_validated", 0) + done["runs"]
    acc.extra["trace_events_validated"] = acc.extra.get("trace_events_validated", 0) + st.get("distinct", 0)
    vf.log("[%s] stage %-22s traces: %d runs, %d states validated against Trace_VM (%ss): %d rejected (%d verdict-bearing)" % (
        acc.prop, name, done["runs"], st.get("distinct", 0), st.get("wall_s"), done["rejected"], nfail))
    return done, mism


def shape_stage(name="shape-repo-tests"):
    """The repository's own test suite run with the verif hooks on and a value-free recorder laid over package vm
    (go test -overlay: /repo is not modified); every run of the machine it performs is validated by TLC against
    the stack-shape machine (VMShape.tla, Trace_Shape.tla)."""
    def f(acc, binary, s):
        with vf.Scratch(acc.prop + "-" + name) as d:
            ov = os.path.join(d, "overlay.json")
            with open(ov, "w") as fh:
                json.dump({"Replace": {os.path.join(vf.REPO, "vm", "verif_shape.go"):
                                       os.path.join(vf.HARNESS_SRC, "shape", "verif_shape.go.txt")}}, fh)
            rec = os.path.join(d, "rec")
            os.makedirs(rec)
            env = vf.goenv()
            env["VERIF_SHAPE_DIR"] = rec
            p = subprocess.run(["go", "test", "-tags", "verif", "-vet=off", "-count=1", "-overlay", ov, "./..."], cwd=vf.REPO,
                               env=env, capture_output=True, text=True, timeout=1500)
            # (a failing test of the suite is not this check's business; no recorded run is)
            lines, seen, total = [], set(), 0
            for fn in sorted(os.listdir(rec)):
                for line in open(os.path.join(rec, fn)):
                    if not line.strip():
                        continue
                    total += 1
                    r = json.loads(line)
                    key = json.dumps([r["prog"], r["events"], r["complete"]])
                    if key in seen:
                        continue
                    seen.add(key)
                    r["run"] = len(lines) + 1
                    lines.append(json.dumps(r))
            if not lines:
                raise vf.Infra("the shape recorder saw no run of the repository's test suite\n" + p.stdout[-800:] + p.stderr[-800:])
            trace = os.path.join(d, "trace.ndjson")
            with open(trace, "w") as fh:
                fh.write("\n".join(lines) + "\n")
            tcfg = vf.cfg_text({"TraceFile": "trace.ndjson"}, spec="SSpec", invariants=("SNoNegativeDepth",))
            out = os.path.join(d, "out.ndjson")
            st = vf.run_tlc("Trace_Shape", tcfg, out_cases=out, workers=1, timeout=1500,
                            extra_files={"trace.ndjson": open(trace, "rb").read()}, name=acc.prop + "-shape")
            done, mism = None, []
            for line in open(out):
                r = json.loads(line)
                if r.get("kind") == "done":
                    done = r
                elif r.get("kind") == "mismatch":
                    mism.append(r)
            if done is None:
                raise vf.Infra("shape validation did not consume the whole trace")
            acc.add_tlc(name + "-validate", st)
            for r in mism:
                acc.failures.append({"prop": acc.prop, "stage": name, "why": "shape:" + r["field"], "src": r["src"], "mode": "shape",
                                     "trace_run": r["run"], "at": r["at"], "want": r.get("want"), "got_field": r.get("got"),
                                     "tags": [lines[r["run"] - 1][:1500]]})
            acc.execs += total
            acc.nontrivial += done["runs"] - done["rejected"]
            acc.extra["shape_runs_recorded"] = total
            acc.extra["shape_runs_distinct_validated"] = done["runs"]
            acc.extra["shape_failed_runs_validated"] = sum(1 for l in lines if '"complete":false' in l.replace(" ", ""))
            if len(acc.samples) < 8:
                first = json.loads(lines[0])
                first["events"] = first["events"][:6]
                acc.samples.append({"shape_run": first})
            vf.log("[%s] stage %-22s %d runs of the repository's test suite recorded, %d distinct validated against Trace_Shape "
                   "(%d states, %ss): %d rejected" % (acc.prop, name, total, done["runs"], st.get("distinct", 0), st.get("wall_s"),
                                                      done["rejected"]))
    return Stage(name, None, None, func=f)


def trace_stage(name, family, maxnodes, every, modes="struct:noopt,struct:opt", verdict_fields=VM_VERDICT_FIELDS,
                max_runs=4000, maxclosure=2, wfonly=False):
    gcfg = gen_cfg(family, maxnodes, maxclosure=maxclosure)

    def f(acc, binary, s):
        with vf.Scratch(acc.prop + "-" + name) as d:
            cases = os.path.join(d, "cases.ndjson")
            vf.run_tlc("MC_Expr", gcfg, out_cases=cases, workers=1, name=acc.prop + "-" + name)
            trace = os.path.join(d, "trace.ndjson")
            summ = os.path.join(d, "rec.json")
            vf.run_harness(binary, ["record", "-in", cases, "-out", trace, "-sum", summ, "-every", str(every),
                                    "-modes", modes, "-max", str(max_runs), "-wfonly", "1" if wfonly else "0"])
            rs = json.load(open(summ))
            if rs["runs"] == 0:
                raise vf.Infra("recorder produced no runs for " + name)
            if len(acc.samples) < 6:
                first = json.loads(open(trace).readline())
                first["events"] = first["events"][:6]
                acc.samples.append({"trace_run": first})
            acc.extra["trace_runs_outside_universe"] = acc.extra.get("trace_runs_outside_universe", 0) + rs["skipped_outside_universe"]
            validate_traces(acc, name, trace, verdict_fields)
    return Stage(name, "MC_Expr", gcfg, func=f)


# ---------------------------------------------------------------------------
# C05

def mc_vm_cfg(family, n, operand_mod=65536, reject=True, mode="typed", maxclosure=2, emit="none",
              invariants=("Conforms", "ProgramWellFormed", "RunsClean", "ShapeAbstracts")):
    return gen_cfg(family, n, maxclosure=maxclosure, emit=emit, invariants=invariants,
                   extra={"OperandMod": operand_mod, "Mode": mode, "RejectOverflow": reject})


def prog_stage(name, family, n, mode="typed"):
    cfg = mc_vm_cfg(family, n, mode=mode, emit="progs", invariants=("EmitProg",))
    return Stage(name, "MC_VM", cfg, "PROG")


C05_MC = {"quick": [("arith", 4), ("logic", 4), ("string", 3), ("coll", 3), ("access", 4), ("builtin", 5), ("mixed", 3)],
          "thorough": [("arith", 5), ("logic", 5), ("string", 4), ("coll", 4), ("access", 5), ("builtin", 6), ("mixed", 4)]}


def stages_C05(tier):
    out = []
    for fam, n in C05_MC[tier]:
        out.append(Stage("mc-%s-n%d" % (fam, n), "MC_VM", mc_vm_cfg(fam, n), kind="mc", workers=vf.NCPU))
    # small scope: operand range 64 and 32; jumps that do not fit must be rejected, everything accepted is well-formed
    out.append(Stage("mc-small-builtin", "MC_VM", mc_vm_cfg("builtin", 5 if tier == "quick" else 6, operand_mod=64),
                     kind="mc", workers=vf.NCPU))
    out.append(Stage("mc-small-logic", "MC_VM", mc_vm_cfg("logic", 5, operand_mod=32), kind="mc", workers=vf.NCPU))
    for fam, n in [("builtin", 4), ("mixed", 3), ("access", 3)]:
        out.append(prog_stage("prog-%s-n%d" % (fam, n), fam, n))
    # oversize: shapes whose jumps overflow the small operand range, inflated to real size
    out.append(Stage("oversize", "MC_VM",
                     mc_vm_cfg("oversize", 4 if tier == "quick" else 5, operand_mod=32, emit="ovcases", invariants=("EmitOv",)),
                     "C05OV", modes="struct:noopt,struct:opt,none:noopt",
                     extra_args=["-ovstride", "9" if tier == "quick" else "2"]))
    # constant pool: a literal of 65534..65536 distinct constants followed by constants the optimizer creates
    out.append(Stage("ovconst", "MC_Expr", gen_cfg("ovconst", 8, emit="ovconst"), "C05OC", modes="struct:opt,struct:noopt",
                     extra_args=(["-ocstride", "9", "-ocsizes", "one"] if tier == "quick" else ["-ocstride", "2"])))
    # every successful real run of the evaluation corpora ends clean (nothing left on the stack, no scope open)
    for fam, n in C01_FAMILIES[tier]:
        out.append(Stage("clean-%s-n%d" % (fam, n), "MC_Expr", gen_cfg(fam, n), "C05CE", modes="struct:noopt,struct:opt"))
    # VM!WellFormed evaluated by TLC on the real bytes of EVERY program of the corpora (no run, not sampled)
    for fam, n in [("logic", 4), ("builtin", 5), ("mixed", 4), ("calls", 5), ("string", 5)] + ([("coll", 4), ("access", 4)] if tier == "thorough" else []):
        out.append(trace_stage("wellformed-%s" % fam, fam, n, 1, max_runs=1000000, wfonly=True))
    # the repository's own test traffic against the value-free stack-shape machine
    out.append(shape_stage())
    ev = 7 if tier == "quick" else 2
    for fam, n in [("builtin", 5), ("mixed", 4), ("logic", 4), ("coll", 4), ("calls", 5), ("access", 4)]:
        out.append(trace_stage("trace-%s" % fam, fam, n, ev, max_runs=3000 if tier == "quick" else 20000))
    return out


C05_RULE = ("(a) TLC model checking of MC_VM: every expression of each family up to the node budget x every environment "
            "assignment: Conforms, ProgramWellFormed, RunsClean (incl. operand range 32/64 small scope); (b) the real "
            "compiler's bytes compared with the specification's compiler (drift diagnostic); (c) real runs recorded "
            "through the verif hook and validated event by event against VM!Step on the real bytes: verdict-bearing "
            "are a pop on an empty stack, an unclean exit (values or scopes left), an ill-formed real program "
            "(VM!WellFormed evaluated by TLC on the real bytes and constants); (c') every successful real run of every "
            "case of the evaluation corpora, on a caller-owned VM, leaves no value on the stack and no scope open; (d) oversize: every expression of family "
            "'oversize' (operand range 32) containing a literal longer than the range, inflated by the harness to 23000 "
            "elements so the same jump offsets exceed 65535, and - for shapes with a loop - to every length from 21825 to "
            "21852 elements, so that the code of the loop body ends within a few bytes of the 16-bit limit: Compile must "
            "reject it or its runs must conform; (e) constant "
            "pool: every expression of family 'ovconst' containing a literal of 12 distinct constants, inflated to 65534, "
            "65535 and 65536 distinct integers and followed by ranges the optimizer folds into constants: Compile must "
            "reject it or every run must conform; "
            "non-trivial = a validated real run or an oversized shape")


def drop_prog_drift(acc):
    drift = [f for f in acc.failures if f.get("why") == "program-differs"]
    acc.failures = [f for f in acc.failures if f.get("why") != "program-differs"]
    if drift:
        acc.extra.setdefault("model_drift", {})["program-differs"] = len(drift)


def check_C05(tier):
    acc = Acc("C05", tier)
    binary = vf.build_harness()
    only = os.environ.get("VERIF_ONLY")
    if not only:
        prefetch(stages_C05(tier))
    for s in stages_C05(tier):
        if only and not s.name.startswith(only):
            continue
        run_stage(acc, binary, s)
    drop_prog_drift(acc)
    return vf.conclude("C05", tier, "model_checking", acc.t0, acc.failures, acc.coverage(C05_RULE),
                       assumptions=EVAL_ASSUME + ["the verif hook reports the machine state after each instruction"])


# ---------------------------------------------------------------------------
# C06

def stages_C06(tier):
    n = 5 if tier == "quick" else 6
    out = [Stage("mc-alloc-n%d" % (3 if tier == "quick" else 4), "MC_VM",
                 mc_vm_cfg("alloc", 3 if tier == "quick" else 4, invariants=("Conforms", "BudgetBounds", "RunsClean")),
                 kind="mc", workers=vf.NCPU),
           Stage("alloc-n%d" % n, "MC_Expr", gen_cfg("alloc", n), "C06", modes="struct:noopt,none:noopt,struct:opt")]
    # an allocating left operand of `in` with a range of run-time bounds: every operand is evaluated and charged once
    out.append(Stage("alloc-in-n8", "MC_Expr", gen_cfg("allocin", 8), "C06", modes="struct:noopt,struct:opt"))
    # a literal range larger than the budget, evaluated or not: refused by the run that evaluates it, never before
    out.append(Stage("bigrange-n6", "MC_Expr", gen_cfg("bigrng", 6), "C06", modes="struct:noopt,struct:opt,none:opt"))
    out.append(Stage("alloc-sim", "MC_Expr", gen_cfg("alloc", 10, maxclosure=3), "C06", modes="struct:noopt,none:noopt,struct:opt",
                     simulate=200 if tier == "quick" else 2000, depth=12, warm=False))
    return out


C06_RULE = ("(a) TLC: MC_VM on family 'alloc' (array/map literals, ranges between environment members - ascending, equal, "
            "empty, descending -, map/filter/count over them, sums of len) x budgets 1..7: Conforms, BudgetBounds (a "
            "successful run created fewer elements than the budget); (b) every expression of the family up to the node "
            "budget x every member assignment x budgets 1..7 run for real with vm.MemoryBudget set: a run the reference "
            "refuses for the budget must not complete, a run it admits must not be refused; plus random deep derivations")


def check_C06(tier):
    return run_check("C06", tier, stages_C06(tier), C06_RULE,
                     assumptions=EVAL_ASSUME + ["vm.MemoryBudget is set by the harness single-threaded and restored",
                                                "unoptimized programs only: a range the optimizer folds at compile "
                                                "time is not created during the run"])


# ---------------------------------------------------------------------------
# C07

def hist_cfg(maxlen, budget, invariants=("HEmit", "FreshEquiv", "PrologueResets")):
    return vf.cfg_text({"MaxLen": maxlen, "Budget": budget, "EmitMode": "cases", "OperandMod": 65536},
                       init="HInit", next_="HNext", invariants=invariants)


def stages_C07(tier):
    out = [Stage("hist-len3-b8", "History", hist_cfg(3, 8), "C07", modes="struct:noopt,struct:opt")]
    if tier == "thorough":
        out.append(Stage("hist-len4-b8", "History", hist_cfg(4, 8), "C07", modes="struct:noopt,struct:opt", timeout=1500))
        out.append(Stage("hist-len3-b5", "History", hist_cfg(3, 5), "C07", modes="struct:noopt"))
    long_n = 60 if tier == "quick" else 200
    out.append(Stage("hist-long", "History", hist_cfg(long_n, 12, invariants=("HEmit",)), "C07", modes="struct:noopt",
                     simulate=20 if tier == "quick" else 100, depth=long_n + 1, warm=False))
    return out


C07_RULE = ("TLC: every history of length <= 3 (thorough: 4) over a pool of 13 (program, environment) items - plain "
            "success, failure inside nested loops, allocating runs whose sum crosses the budget, budget failures, "
            "descending ranges - with FreshEquiv and PrologueResets checked in every state of History.tla; each history "
            "replayed on ONE real vm.VM value: every run must return what the specification assigns to a fresh machine "
            "and what a real fresh VM returns; plus random histories of length 60/200 (allocation crosses the budget many "
            "times over); non-trivial = a history of >= 2 runs")


def check_C07(tier):
    return run_check("C07", tier, stages_C07(tier), C07_RULE, assumptions=EVAL_ASSUME)


# ---------------------------------------------------------------------------
# C02, C15: the C01 corpora, compared across compilation variants

def stages_variants(prop, modes, tier):
    # the enumerated corpora are those of C01's quick tier in both tiers (each is replayed in 3-5 variants);
    # the thorough tier adds 13 times more random deep derivations
    out = []
    for fam, n in C01_FAMILIES["quick"]:
        out.append(Stage("%s-n%d" % (fam, n), "MC_Expr", gen_cfg(fam, n), prop, modes=modes))
    sim_n = 300 if tier == "quick" else 4000
    for fam in ("mixed", "builtin", "coll"):
        out.append(Stage("%s-sim" % fam, "MC_Expr", gen_cfg(fam, 12, maxclosure=3), prop, modes=modes,
                         simulate=sim_n, depth=14, warm=False))
    return out


def opt_cfg(family, n):
    return gen_cfg(family, n, emit="none", invariants=("Transparent",), extra={"OptDevs": ("<-", "NoDevs")})


def stages_C02_extra(tier):
    # whatever the checker makes of an ill-typed text, the optimizer does not change it (MC_Err single-fault texts)
    return [Stage("illtyped-alike-logic-n3", "MC_Err", err_cfg("logic", 3, "reject"), "C02R", modes="struct:opt", timeout=2400)]


def stages_C02(tier):
    # the optimizer's passes as designed (Optimizer.tla) are transparent on every expression x assignment
    out = [Stage("design-%s-n%d" % (fam, n), "MC_Opt", opt_cfg(fam, n), kind="mc", workers=vf.NCPU, timeout=2400)
           for fam, n in ([("coll", 4), ("order", 5), ("arith", 3)] if tier == "quick" else [("coll", 4), ("order", 5), ("arith", 4), ("mixed", 4), ("inlit", 6)])]
    out += stages_variants("C02", "struct:opt,struct:noopt,none:opt,none:noopt", tier)
    # the ConstExpr clause: pure functions marked as constant expressions, optimizer on and off
    n = 5 if tier == "quick" else 6
    out.append(Stage("cexpr-n%d" % n, "MC_Expr", gen_cfg("cexpr", n), "C02",
                     modes="struct:opt:const,struct:noopt:const,struct:opt,struct:noopt"))
    out += stages_C02_extra(tier)
    return out


def stages_C15(tier):
    return stages_variants("C15", "struct:noopt,ptr:noopt,map:noopt,none:noopt,eval,struct:opt,map:opt", tier)


C02_RULE = ("(design) Optimizer.tla states the passes inArray, fold, inRange, constRange as tree rewrites with the guards "
            "under which they are sound; TLC checks Transparent (optimizing does not change value, failure or call log; "
            "the optimizer fails only on a constant division by zero) on every expression of three (five) families x "
            "every assignment; (code) the expressions and environment assignments of the C01 corpora (TLC-enumerated per family up to the node "
            "budget + random deep derivations); each compiled with Optimize(true) and Optimize(false), with and without "
            "a declared environment type; per assignment both programs fail or both return ObsEq values (numbers equal in "
            "kind and value, sequences element by element); an expression only the optimizer rejects must contain a "
            "constant integer division or modulo by zero (computed by Sem!HasConstDivZero)")
C15_RULE = ("the expressions and environment assignments of the C01 corpora; each compiled against the struct type, a "
            "pointer to it, a map with the same members, without any type, and evaluated with Eval; per assignment all "
            "variants that compile and succeed return ObsEq values")


def check_C02(tier):
    return run_check("C02", tier, stages_C02(tier), C02_RULE,
                     assumptions=EVAL_ASSUME + ["ConstExpr is exercised for the pure functions AnyId, Var, Cat, Id of family 'cexpr' only"])


def check_C15(tier):
    return run_check("C15", tier, stages_C15(tier), C15_RULE, assumptions=EVAL_ASSUME)


# ---------------------------------------------------------------------------
# C14

def stages_C14(tier):
    modes = "struct:noopt,struct:opt,ptr:noopt"
    out = [Stage("promo-n3", "MC_Expr", gen_cfg("promo", 3), "C14", modes=modes, extra_args=["-fullwidth", "1"]),
           Stage("arith-n%d" % (4 if tier == "quick" else 5), "MC_Expr", gen_cfg("arith", 4 if tier == "quick" else 5), "C14", modes=modes),
           Stage("promo-sim", "MC_Expr", gen_cfg("promo", 7), "C14", modes=modes,
                 simulate=400 if tier == "quick" else 5000, depth=9, warm=False)]
    return out


C14_RULE = ("TLC: every pair of the 12 Go numeric kinds (environment members I, I8 .. U64, F32, F with 1-3 values each, "
            "extrema included) x every arithmetic and comparison operator (family 'promo', 1552 expressions), the "
            "arithmetic family with literals, and random nested combinations; the real result must have the value and "
            "kind Prim!Arith assigns under the reference rank (unsigned by width, signed by width, float32, float64; "
            "integer division truncates; integer division by zero fails), and the kind of the real result must be the "
            "kind the real checker.Check reports; at full width: for every kind pair x operator the conversion rule the "
            "specification emits (the kind both operands are converted to) is applied to 7-9 extrema per kind (minimum, "
            "maximum, half range, 2^24+1, 2^53+1, 2^63, 2^64-1 as floats) by a math/big / float32 / float64 evaluator that "
            "is first validated against the values TLC computed; integer division by zero must fail, float division "
            "by zero must give an infinity or NaN")


def check_C14(tier):
    return run_check("C14", tier, stages_C14(tier), C14_RULE, assumptions=EVAL_ASSUME)


# ---------------------------------------------------------------------------
# C18

def stages_C18(tier):
    modes = "struct:noopt,struct:opt,none:noopt"
    n = 5 if tier == "quick" else 6
    out = [Stage("laws-n%d" % n, "MC_Expr", gen_cfg("laws", n, emit="laws", invariants=("EmitLaws", "LawsHold")), "C18",
                 modes=modes, timeout=1800),
           Stage("laws-nest-n%d" % (n + 3), "MC_Expr", gen_cfg("nest", n + 3, emit="laws", invariants=("EmitLaws", "LawsHold")), "C18",
                 modes=modes, timeout=2400),
           # "a closure nested to any depth sees the element of its own innermost collection": mappers over mappers with a
           # builtin of their own inside, against the reference value
           Stage("own-element-mapmap-n9", "MC_Expr", gen_cfg("mapmap", 9), "C01", modes="struct:opt,struct:noopt", timeout=1800),
           Stage("laws-sim", "MC_Expr", gen_cfg("laws", 11, maxclosure=3, emit="laws", invariants=("EmitLaws", "LawsHold")),
                 "C18", modes=modes, simulate=600 if tier == "quick" else 6000, depth=13, warm=False)]
    return out


C18_RULE = ("TLC: every expression of family 'laws' up to the node budget whose root is all(xs, p), `i in a..b` or "
            "xs[i:] (closures nested up to depth 2/3, `#` bound to the innermost collection) yields the identities "
            "all = not any not, none = not any, one = (count = 1), count = len filter, len map = len, all(filter(xs,p),p), "
            "in-range = two-sided comparison, len(xs[:i]) + len(xs[i:]) = len(xs); LawsHold checks them on the reference "
            "semantics in every state; both sides are then compiled and run for real on every member assignment: where "
            "the reference evaluates both sides, the real results must both succeed and be equal")


def check_C18(tier):
    return run_check("C18", tier, stages_C18(tier), C18_RULE, assumptions=EVAL_ASSUME)


# ---------------------------------------------------------------------------
# C09, C10

def stages_C09(tier):
    out = stages_variants("C09", "ptr:opt,ptr:noopt,map:opt", tier)
    # option sets with several candidates per operator (OpTable.tla): recompiling never changes the program
    out.append(Stage("tables-determinism", "OpTable", optable_cfg(3), "C09M", modes="struct:opt" if tier == "quick" else "struct:opt,ptr:noopt", timeout=2400))
    return out


C09_RULE = ("the expressions and environment assignments of the C01 corpora; each source compiled twice with the same "
            "options (pointer-to-struct and map sample environments, optimizer on and off): the two programs must be "
            "identical byte for byte and constant for constant (value and Go type); each program run twice per assignment: "
            "equal results and call logs, program image, environment value and sample environment unchanged "
            "(projection of every non-function member before/after)")


def check_C09(tier):
    return run_check("C09", tier, stages_C09(tier), C09_RULE, level="exploration",
                     assumptions=EVAL_ASSUME + ["modification is observed through the projection Abs of every non-function member"])


C10_FAMILIES = {"quick": [("coll", 4), ("mixed", 4), ("access", 4), ("builtin", 4), ("string", 4), ("logic", 4)],
                "thorough": [("coll", 5), ("mixed", 5), ("access", 5), ("builtin", 5), ("string", 5), ("logic", 5)]}


def stages_C10(tier):
    out = []
    for fam, n in C10_FAMILIES[tier]:
        out.append(Stage("walk-%s-n%d" % (fam, n), "MC_Expr",
                         gen_cfg(fam, n, emit="walk", invariants=("EmitWalk", "WalkBalanced")), "C10",
                         modes="struct:noopt,struct:opt", timeout=1800))
    # the optimizer's own visitors replace the root node like any other (Optimizer.tla gives the root's kind)
    for fam, n in [("arith", 3), ("coll", 3), ("string", 3)]:
        out.append(Stage("optroot-%s-n%d" % (fam, n), "MC_Opt",
                         gen_cfg(fam, n, emit="optroot", invariants=("EmitOptRoot",), extra={"OptDevs": ("<-", "NoDevs")}), "C10",
                         modes="struct:opt", timeout=1800))
    # the clients of the walk named by the property: the operator patcher reaches every occurrence wherever it sits
    # (arguments of any parameter type, branches, closures, bounds) and whatever was walked before it
    out.append(Stage("clients-overload-n4", "MC_Expr", gen_cfg("ovl", 4, emit="ovl", invariants=("EmitOvl", "OvlTyped")), "C17",
                     modes="struct:noopt,struct:opt", timeout=2400))
    out.append(Stage("clients-overload-args-n5", "MC_Expr", gen_cfg("ovlarg", 5, emit="ovl", invariants=("EmitOvl", "OvlTyped")), "C17",
                     modes="struct:noopt,struct:opt", timeout=2400))
    # the optimizer's passes as clients: a node the parser placed in two slots (`c ?: b`) is rewritten in both
    out.append(Stage("clients-optimizer-inrng", "MC_Expr", gen_cfg("inrng", 7), "C02", modes="struct:opt,struct:noopt", timeout=1800))
    out.append(Stage("clients-tables", "OpTable", optable_cfg(2 if tier == "quick" else 3), "C17M", modes="struct:opt", timeout=2400))
    for fam in ("mixed", "coll", "builtin"):
        out.append(Stage("walk-%s-sim" % fam, "MC_Expr",
                         gen_cfg(fam, 12, maxclosure=3, emit="walk", invariants=("EmitWalk", "WalkBalanced")), "C10",
                         modes="struct:noopt,struct:opt", simulate=300 if tier == "quick" else 4000, depth=14, warm=False))
    return out


C10_RULE = ("TLC: every expression of six families up to the node budget (slices with 0-2 bounds, indexing, closures, "
            "calls, methods, maps, arrays, conditionals) + random deep derivations; Walk!WalkSeq gives the promised "
            "event sequence (WalkBalanced checked in every state); the real ast.Walk over parser.Parse(Src(t)) must "
            "produce exactly that sequence of Enter/Exit events by node kind and enter no node twice; a Patch visitor "
            "replacing the literal 1 by 2 must make Compile(Src(t)) behave as Compile(Src(Walk!Patch(t))) on every "
            "assignment (value, failure, call log), optimizer on and off; the same source compiled without the visitor before "
            "and after the patching compilation yields identical programs (a replacement does not leak into another "
            "compilation); and the tree after optimizer.Optimize - whose passes are visitors too - has the root kind "
            "Optimizer.tla gives it (a replacement of the root node takes effect)")


def check_C10(tier):
    return run_check("C10", tier, stages_C10(tier), C10_RULE, assumptions=EVAL_ASSUME)


# ---------------------------------------------------------------------------
# C17

def optable_cfg(n):
    return ("CONSTANTS\n  MaxEntries = %d\n  OpEmit = \"cases\"\nINIT Init\nNEXT Next\nINVARIANT NothingForUnmapped\n"
            "INVARIANT EmitTable\nPROPERTY Monotone\nPROPERTY Stable\nCHECK_DEADLOCK FALSE\n" % n)


def stages_C17(tier):
    modes = "struct:noopt,struct:opt,ptr:opt,altmap:opt,altmap:noopt"
    n = 5 if tier == "quick" else 6
    # (tables of 4 entries are 330,000: the thorough tier adds the third environment form to the tables of 3 instead)
    return [Stage("tables-3", "OpTable", optable_cfg(3), "C17M",
                  modes="struct:opt,ptr:noopt" if tier == "quick" else "struct:opt,struct:noopt,ptr:opt,ptr:noopt", timeout=3000),
            Stage("ovl-n%d" % n, "MC_Expr", gen_cfg("ovl", n, emit="ovl", invariants=("EmitOvl", "OvlTyped")), "C17",
                  modes=modes, timeout=2400),
            Stage("ovl-args-n%d" % n, "MC_Expr", gen_cfg("ovlarg", n, emit="ovl", invariants=("EmitOvl", "OvlTyped")), "C17",
                  modes=modes, timeout=2400),
            Stage("ovl-branches-n%d" % (n + 1), "MC_Expr",
                  gen_cfg("ovlb", n + 1, emit="ovl", invariants=("EmitOvl", "OvlTyped")), "C17", modes=modes, timeout=2400),
            Stage("ovl-table-n%d" % n, "MC_Expr", gen_cfg("ovl", n, emit="ovlt", invariants=("EmitOvlT",)), "C17",
                  modes="struct:noopt,struct:opt", timeout=2400),
            Stage("ovl-table-several-n7", "MC_Expr", gen_cfg("ovlt", 7, emit="ovlt", invariants=("EmitOvlT",)), "C17",
                  modes="struct:noopt,struct:opt", timeout=2400),
            Stage("ovl-sim", "MC_Expr", gen_cfg("ovl", 12, maxclosure=3, emit="ovl", invariants=("EmitOvl", "OvlTyped")),
                  "C17", modes=modes, simulate=1500 if tier == "quick" else 8000, depth=14, warm=False)]


C17_RULE = ("TLC: every expression of family 'ovl' up to the node budget (int, float, any, int64 operands; `+` inside "
            "closures, conditionals, arguments, index and slice bounds, sliced operands, array and map literals) + random "
            "derivations; Types!Overload rewrites exactly the occurrences of `+` whose operands are both statically int "
            "into Add(l, r) (OvlTyped: Types!TypeOf agrees with the generator's typing in every state); the real library "
            "compiled with Operator(\"+\", \"Add\") must return the value, failure and call log (each Add with its operands, in "
            "order) of the rewritten tree; mappings naming a missing, one-parameter or non-function member must be rejected")


def check_C17(tier):
    return run_check("C17", tier, stages_C17(tier), C17_RULE, assumptions=EVAL_ASSUME)


# ---------------------------------------------------------------------------
# C11: the reference grammar (Grammar.tla) against the real parser

SYN_SUBST = {
    "SLeaves": ("<-", "FS_Leaves"), "SUnOps": ("<-", "FS_UnOps"), "SBinOps": ("<-", "FS_BinOps"),
    "SProps": ("<-", "FS_Props"), "SMeths": ("<-", "FS_Meths"), "SFuncs": ("<-", "FS_Funcs"),
    "SBuiltins": ("<-", "FS_Builtins"), "SUseLen": ("<-", "FS_UseLen"), "SUseCond": ("<-", "FS_UseCond"),
    "SUseIdx": ("<-", "FS_UseIdx"), "SUseElem": ("<-", "FS_UseElem"), "SSliceShapes": ("<-", "FS_SliceShapes"),
    "SArrLens": ("<-", "FS_ArrLens"), "SMapLens": ("<-", "FS_MapLens"),
}


def syn_cfg(family, maxnodes, maxclosure=2, emit="trees", invariants=("RoundTrip", "ParensRequired", "EmitTrees")):
    c = dict(SYN_SUBST)
    c.update(SFamily=family, SEmitMode=emit, SMaxNodes=maxnodes, SMaxClosure=maxclosure, TokAlphabet="ops", TokMaxLen=1)
    return vf.cfg_text(c, invariants=invariants)


def seq_cfg(alphabet, maxlen):
    c = dict(SYN_SUBST)
    c.update(SFamily="prec", SEmitMode="seqs", SMaxNodes=1, SMaxClosure=1, TokAlphabet=alphabet, TokMaxLen=maxlen)
    return vf.cfg_text(c, init="TInit", next_="TNext", invariants=("EmitSeqs",))


C11_FAMILIES = {"quick": [("prec", 5), ("ops", 5), ("postfix", 4), ("forms", 4), ("mixed", 4), ("cond", 7)],
                "thorough": [("prec", 6), ("ops", 5), ("postfix", 5), ("forms", 5), ("mixed", 5), ("cond", 9)]}
C11_SEQS = {"quick": [("ops", 4), ("post", 4), ("forms", 4)], "thorough": [("ops", 5), ("post", 5), ("forms", 5)]}


def stages_C11(tier):
    out = []
    for fam, n in C11_FAMILIES[tier]:
        out.append(Stage("syn-%s-n%d" % (fam, n), "MC_Front", syn_cfg(fam, n), "C11", timeout=2400))
    for alpha, n in C11_SEQS[tier]:
        out.append(Stage("seq-%s-len%d" % (alpha, n), "MC_Front", seq_cfg(alpha, n), "C11", timeout=2400))
    # near misses of sentences: one token deleted, doubled, or swapped with its neighbour
    for fam, n in ([("forms", 4), ("postfix", 3), ("cond", 5)] if tier == "quick" else [("forms", 5), ("postfix", 4), ("cond", 6), ("mixed", 4)]):
        out.append(Stage("near-%s-n%d" % (fam, n), "MC_Front", syn_cfg(fam, n, emit="near", invariants=("EmitNear",)), "C11", timeout=2400))
    sim_n = 400 if tier == "quick" else 5000
    for fam in ("mixed", "forms", "postfix"):
        out.append(Stage("syn-%s-sim" % fam, "MC_Front", syn_cfg(fam, 14, maxclosure=3), "C11",
                         simulate=sim_n, depth=16, warm=False))
    return out


C11_RULE = ("TLC: every syntax tree of five families up to the node budget (untyped derivation machine GenSyn.tla: all "
            "unary and binary operators of every precedence level, conditionals, property/method/index/slice steps with "
            "and without nil-safety, calls, builtins with closures and `#`, array and map literals) + random deep "
            "derivations; in every state RoundTrip (the reference parser maps the minimal and the fully parenthesised "
            "token sequence back to the tree) and ParensRequired (removing any pair of parentheses the minimal printer "
            "wrote changes the parse); each tree's texts - minimal parentheses x {no, single, irregular multi-line} "
            "spacing, all parentheses x {no, irregular} spacing - are parsed by the real parser.Parse: the projected real "
            "tree must equal the tree; and every token sequence up to the length bound over three alphabets (operators, "
            "postfix steps, brackets/builtins) is parsed for real: the tree RefParse assigns, or rejection where RefParse "
            "rejects; non-trivial = a tree of >= 3 nodes or a sequence of >= 3 tokens")


def check_C11(tier):
    return run_check("C11", tier, stages_C11(tier), C11_RULE,
                     assumptions=["the reference grammar is the binding-power table and precedence-climbing scheme of "
                                  "DESIGN.md appendix F (the language document gives no table)",
                                  "harness projection projNode (harness/front.go) of ast nodes is faithful",
                                  "TLC evaluates Grammar!RefParse as written"])


# ---------------------------------------------------------------------------
# C12: the lexer machine (Lexer.tla) and the lexical reference (Lexical.tla)

LEX_INV = ("LocInv", "TokenLocInv", "ValueInv", "OrderInv", "Agrees", "QuoteInverts", "EmitCase")


def lex_cfg(family, maxlen):
    return vf.cfg_text({"LexFamily": family, "LexMaxLen": maxlen, "LexEmit": "cases"}, invariants=LEX_INV)


C12_FAMILIES = {"quick": [("strlit", 2), ("numlit", 4), ("bigvals", 1), ("layout", 1), ("all-num", 3), ("all-str", 3), ("all-op", 3),
                          ("all-word", 4), ("all-misc", 3), ("numsuffix", 1)],
                "thorough": [("strlit", 3), ("numlit", 5), ("bigvals", 1), ("layout", 1), ("all-num", 4), ("all-str", 4), ("all-op", 4),
                             ("all-word", 5), ("all-misc", 4), ("numsuffix", 1)]}


def stages_C12(tier):
    return [Stage("lex-%s-%d" % (fam, n), "MC_Lex", lex_cfg(fam, n), "C12", workers=1, timeout=3600)
            for fam, n in C12_FAMILIES[tier]]


C12_RULE = ("TLC runs the lexer machine Lexer.tla (one step per state function of state.go, built from next/backup/peek/"
            "accept/acceptRun/acceptWord/emit) on every text of eight families and checks in every state LocInv (the "
            "tracked location is the position of the current rune computed from the text alone), TokenLocInv (a token's "
            "location is the position of its first rune), ValueInv, OrderInv, and for the structured families Agrees "
            "(the machine yields what the lexical reference assigns) and QuoteInverts. Families: strlit = Quote(v, q, "
            "style) for every value up to the length bound over 16 characters (quotes, backslash, LF, CR, TAB, BEL, NUL, "
            "DEL, 2-, 3- and 4-byte runes) x both quotes x 8 escape styles; numlit = every decimal spelling with "
            "separators, every 0x/0X hexadecimal spelling over {1,e,E,f,A,b,0,_}, every float form d.d .d d. with "
            "exponents; bigvals = eleven spelling schemes (decimal with and without separators, 0x/0X hexadecimal in lower, "
            "upper and mixed case with separators, floats in e/E/f/g formats) instantiated by the harness with extrema "
            "(2^31, 2^53+1, 2^63-1, hexadecimal values made of the digits e, b, f; MaxFloat64, the smallest denormal) and "
            "400 seeded random values each; layout = every ordered pair of 45 tokens of all kinds x 8 separators (line breaks, tabs, CR LF, "
            "none where safe) x 2 prefixes; all-* = every text up to the bound over five class alphabets. The real "
            "lexer.Lex / parser.Parse must return the specified token kinds, values (byte-exact), positions and literal "
            "values (integers by math/big from the canonical digits, floats as the float64 nearest to mantissa x "
            "10^exponent); on all-* texts a token location differing from the machine's is a verdict, other differences "
            "are model drift; non-trivial = a literal, a token pair, or a text of >= 2 characters")


def check_C12(tier):
    return run_check("C12", tier, stages_C12(tier), C12_RULE,
                     assumptions=["symbolic characters are mapped to bytes by harness/lex.go symBytes",
                                  "float expectation: big.Rat(mantissa x 10^exp10).Float64() is the nearest float64",
                                  "the all-* families compare with the machine transcribed from lexer.go/state.go: "
                                  "only token locations are verdict-bearing there"])


# ---------------------------------------------------------------------------
# C13: error positions (MC_Err.tla faults, MC_Front.tla rejected token sequences)

def err_cfg(family, n, mode):
    return gen_cfg(family, n, emit="none", invariants=("EmitErr",), extra={"ErrMode": mode})


C13_FAMILIES = {"quick": {"compile": [("logic", 3), ("access", 3), ("builtin", 4), ("coll", 3)],
                          "run": [("logic", 4), ("arith", 3), ("builtin", 4), ("mixed", 3)]},
                "thorough": {"compile": [("logic", 4), ("access", 4), ("builtin", 5), ("coll", 4), ("string", 4)],
                             "run": [("logic", 5), ("arith", 4), ("builtin", 5), ("mixed", 4), ("access", 4)]}}


def stages_C13(tier):
    out = []
    for fam, n in C13_FAMILIES[tier]["compile"]:
        out.append(Stage("compile-%s-n%d" % (fam, n), "MC_Err", err_cfg(fam, n, "compile"), "C13",
                         modes="struct:opt,struct:noopt", timeout=2400))
    for fam, n in C13_FAMILIES[tier]["run"]:
        out.append(Stage("run-%s-n%d" % (fam, n), "MC_Err", err_cfg(fam, n, "run"), "C13",
                         modes="struct:opt,struct:noopt,none:noopt", timeout=2400))
    for alpha, n in C11_SEQS[tier]:
        out.append(Stage("seq-%s-len%d" % (alpha, n), "MC_Front", seq_cfg(alpha, n), "C13", timeout=2400))
    return out


C13_RULE = ("TLC (MC_Err.tla): every well-typed expression of the families up to the node budget x every leaf x ten "
            "compile faults (unknown identifier, field, method, function; six operator/operand type mismatches) and - at "
            "int-typed leaves - five run-time faults (modulo by zero, panicking function, nil function, field of a nil "
            "pointer, index out of range) under every assignment for which the reference semantics evaluates the "
            "unfaulted expression successfully and the faulted one fails (so exactly the injected operation fails); the "
            "expected (line, column) of the fault's anchor token is computed from the token sequence under a one-line "
            "and an irregular multi-line layout, and behind a string of 2-, 3- and 4-byte runes; plus every token "
            "sequence of the C11 alphabets that the reference grammar rejects at a token (MC_Front.tla), with the "
            "position of that token, also with multi-byte identifiers. The real Compile / Run / Parse error must be a "
            "*file.Error naming exactly that position, lying inside the source, with the source line as snippet")


def check_C13(tier):
    return run_check("C13", tier, stages_C13(tier), C13_RULE,
                     assumptions=["anchors: the name token for names, the operator token for operators, `[` for an index "
                                  "(DESIGN.md section 6 C13); lexical errors and end-of-input errors are checked for "
                                  "InsideSource only", "TLC evaluates Grammar!PosOfTok and Sem!Eval as written"])


# ---------------------------------------------------------------------------
# C03: soundness on statically typed programs, rejection of single typing faults

C03_SOUND = {"quick": [("arith", 4), ("logic", 4), ("string", 4), ("coll", 4), ("access", 4), ("builtin", 5), ("promo", 3), ("mixed", 4)],
             "thorough": [("arith", 5), ("logic", 5), ("string", 5), ("coll", 5), ("access", 5), ("builtin", 6), ("promo", 3),
                          ("mixed", 5)]}
C03_REJECT = {"quick": [("logic", 3), ("access", 3), ("builtin", 4)], "thorough": [("logic", 4), ("access", 4), ("builtin", 5), ("coll", 4)]}
C03_MODES = "struct:noopt,struct:opt,struct:opt:asbool,struct:opt:asint64,struct:noopt:asfloat64"


def stages_C03(tier):
    out = []
    for fam, n in C03_SOUND[tier]:
        out.append(Stage("sound-%s-n%d" % (fam, n), "MC_Expr", gen_cfg(fam, n), "C03S", modes=C03_MODES))
    for fam, n in C03_REJECT[tier]:
        out.append(Stage("reject-%s-n%d" % (fam, n), "MC_Err", err_cfg(fam, n, "reject"), "C03R",
                         modes="struct:opt,struct:noopt", timeout=2400))
    # violations that depend on the element type of the enclosing closure, among nested closures over other element types
    for fam, n in ([("nest2", 7), ("builtin", 4)] if tier == "quick" else [("nest2", 8), ("builtin", 5)]):
        out.append(Stage("reject-element-%s-n%d" % (fam, n), "MC_Err", err_cfg(fam, n, "ctx"), "C03R",
                         modes="struct:opt,struct:noopt", timeout=2400))
    sim_n = 300 if tier == "quick" else 4000
    out.append(Stage("sound-nest2-sim", "MC_Expr", gen_cfg("nest2", 12, maxclosure=2), "C03S", modes="struct:noopt,struct:opt",
                     simulate=5 * sim_n, depth=14, warm=False))
    for fam in ("mixed", "builtin"):
        out.append(Stage("sound-%s-sim" % fam, "MC_Expr", gen_cfg(fam, 12, maxclosure=3), "C03S", modes=C03_MODES,
                         simulate=sim_n, depth=14, warm=False))
    return out


C03_RULE = ("(soundness) the TLC-enumerated expressions of the evaluation families that are statically typed throughout "
            "(Types!FullyTyped: no operand of dynamic type) x every assignment: a program the real checker accepts must "
            "fail only where the reference semantics fails (a real failure where Sem!Eval succeeds is a failure for a type "
            "reason), a successful result must be assignable to the type the real checker.Check reports, and under "
            "AsBool / AsInt64 / AsFloat64 it must be exactly bool / int64 / float64 with the converted value (Prim!Conv), "
            "a non-boolean expression being rejected under AsBool; (rejection) every expression of three families x "
            "every leaf x 28 single violations of a typing rule (unknown identifier/field/method/function, mismatched "
            "operand types at unary, binary and matches operators, wrong arity, wrong argument type incl. arithmetic "
            "arguments, non-boolean condition and predicate, non-collection builtin argument, bad index/slice/range/"
            "membership operands): Compile must reject each; non-trivial = a typed expression of >= 3 nodes, or a fault")


def check_C03(tier):
    return run_check("C03", tier, stages_C03(tier), C03_RULE,
                     assumptions=EVAL_ASSUME + ["the reference typing rules are those of DESIGN.md appendix G",
                                                "completeness (accepting every well-typed expression) is not claimed: "
                                                "a rejection of a well-typed expression is counted, not reported"])


# ---------------------------------------------------------------------------
# C04: error containment (Pipeline.tla configurations, lexical families, ill-typed programs)

def pipe_cfg(devs=()):
    txt = "CONSTANTS\n  Devs = {%s}\n  PipeEmit = \"cases\"\n" % ", ".join('"%s"' % d for d in devs)
    return txt + "INIT Init\nNEXT Next\nINVARIANT NoEscape\nINVARIANT EmitPipe\nCHECK_DEADLOCK FALSE\n"


C04_TEXT_MODES = "none:opt,struct:opt,struct:noopt:undef,map:opt:asbool"


def stages_C04(tier):
    out = [Stage("pipeline", "Pipeline", pipe_cfg(), "C04P", timeout=1800)]
    for fam, n in C12_FAMILIES[tier]:
        if fam.startswith("all-"):
            out.append(Stage("text-%s-%d" % (fam, n), "MC_Lex", lex_cfg(fam, n), "C04T", modes=C04_TEXT_MODES, timeout=3600))
    for fam, n in C03_REJECT[tier][:2]:
        out.append(Stage("fault-%s-n%d" % (fam, n), "MC_Err", err_cfg(fam, n, "reject"), "C04F", modes=C04_TEXT_MODES, timeout=2400))
    for alpha, n in C11_SEQS[tier][:2]:
        out.append(Stage("seq-%s-len%d" % (alpha, n), "MC_Front", seq_cfg(alpha, n), "C04Q", modes=C04_TEXT_MODES, timeout=2400))
    return out


C04_RULE = ("(a) Pipeline.tla: the Compile pipeline as a machine over stages with the three recover boundaries; TLC checks "
            "NoEscape (no behaviour ends in a panic) on every sensible configuration - environment kind {none, struct, "
            "pointer, map, map with a nil member} x AllowUndefinedVariables x Optimize x result directive x Operator {none, "
            "ok, missing, ill-shaped, non-function, nil member} x ConstExpr {none, ok, missing, non-function, panicking, "
            "given before Env} x Patch {none, identity, leaf-replacing, ConstantNode-inserting, root-replacing} x 17 "
            "expression classes x 4 run-time environments - and each configuration is instantiated (2-8 concrete sources "
            "per class, incl. a 70000-constant literal, lexical and syntax errors, panicking and nil functions) and "
            "executed: Compile, Run and Eval must return exactly one of result and error and never panic or hang; "
            "(b) every text of the five class alphabets up to the length bound (quotes, escapes, digits/x/e/_, operators, "
            "words, an invalid UTF-8 byte, multi-byte runes) through Parse, Compile (4 option sets) and Eval; (c) every "
            "single-fault ill-typed program of MC_Err.tla and every token sequence of two alphabets through the same; "
            "non-trivial = a configuration, or a text of >= 2 characters")


def check_C04(tier):
    return run_check("C04", tier, stages_C04(tier), C04_RULE, level="exploration",
                     assumptions=["a watchdog of 20 s per call stands for 'never hangs'",
                                  "coverage-guided mutation of arbitrary byte strings is outside this technique: texts are "
                                  "enumerated over class alphabets instead",
                                  "user visitors and environment functions that panic themselves are exercised for Run "
                                  "(recovered) and for ConstExpr; a visitor that panics is user code outside Compile's contract"])


# ---------------------------------------------------------------------------
# C16: member resolution (Resolve.tla) against generated Go environment types

def names_cfg(maxmembers):
    return vf.cfg_text({"MaxMembers": maxmembers, "NamesEmit": "cases"}, invariants=("ShadowingIsShallowest", "EmitNames", "EmitMaps"))


def names_stage(name, maxmembers):
    cfg = names_cfg(maxmembers)

    def f(acc, binary, s):
        import names
        with vf.Scratch("C16-" + name) as d:
            cases = os.path.join(d, "cases.ndjson")
            st = vf.run_tlc("MC_Names", cfg, out_cases=cases, workers=1, timeout=1800, name="C16-" + name)
            acc.add_tlc(name, st)
            sm, fs = names.run(cases, d)
            sm["samples"] = [json.loads(open(cases).readline())]
            acc.add_summary(sm)
            for x in fs:
                x["prop"] = "C16"
                x["stage"] = name
            acc.failures += fs
            vf.log("[C16] stage %-22s tlc: %d states %d environment types (%ss%s)  real executions: %d  failures: %d" % (
                name, st.get("distinct", 0), st.get("cases", 0), st.get("wall_s"), ", cached" if st.get("cached") else "",
                sm["executions"], sm["failures"]))
    return Stage(name, "MC_Names", cfg, func=f)


def stages_C16(tier):
    return [names_stage("types-%d" % (3 if tier == "quick" else 4), 3 if tier == "quick" else 4)]


C16_RULE = ("TLC (MC_Names.tla over Resolve.tla): every legal struct type of up to 3 (thorough: 4) members, in every order, "
            "drawn from own fields (exported and unexported; int and string under the same name) and six inner struct types "
            "embedded by value or by pointer (with own fields, value- and pointer-receiver methods, embeddings to depth 3), "
            "each with a method on a value receiver, on a pointer receiver, or none; for each type and each of 8 names Go's "
            "selector rule (Resolve!Lookup: shallowest depth, ambiguity, method sets) gives what the name denotes; "
            "ShadowingIsShallowest is checked on every type. The types are written out as Go declarations, built against "
            "/repo and populated; for each type passed by value and by pointer, and nested as a member X of another "
            "environment: the specification's verdict must be Go's own (reflect; else infrastructure error), a name the "
            "checker accepts (as identifier, call, X.name, X.name()) must resolve at run time to a value assignable to "
            "the checker's type, an exported member Go resolves must be accepted, and docgen.CreateDoc must list exactly "
            "the accepted names")


def check_C16(tier):
    return run_check("C16", tier, stages_C16(tier), C16_RULE,
                     assumptions=["reflect.Type.FieldByName / MethodByName implement Go's selector rule (they are compared "
                                  "with Resolve!Lookup on every name)", "map environments are not generated (struct "
                                  "environments only)"])


# ---------------------------------------------------------------------------
# C08: interleavings of Conc.tla replayed through the gate hook; free runs under the race detector

def conc_cfg(nvm, switches, emit, view=True):
    txt = "CONSTANTS\n  NVM = %d\n  MaxSwitches = %d\n  ConcEmit = \"%s\"\n  OperandMod = 65536\n" % (nvm, switches, emit)
    txt += "SPECIFICATION Spec\n" + ("VIEW View\n" if view else "") + "INVARIANT Isolation\nINVARIANT EmitSched\n"
    txt += "PROPERTY SharedUntouched\nCHECK_DEADLOCK FALSE\n"
    return txt


def race_stage(name, family, n, modes, stride):
    gcfg = gen_cfg(family, n)

    def f(acc, binary, s):
        import subprocess
        rbin = vf.build_harness(race=True)
        with vf.Scratch("C08-" + name) as d:
            cases = os.path.join(d, "cases.ndjson")
            st = vf.run_tlc("MC_Expr", gcfg, out_cases=cases, workers=1, name="C08-" + name)
            acc.add_tlc(name, st)
            fail, summ, log = os.path.join(d, "fail.ndjson"), os.path.join(d, "sum.json"), os.path.join(d, "race")
            env = vf.goenv()
            env["GORACE"] = "halt_on_error=0 exitcode=0 log_path=%s history_size=2" % log
            cmd = [rbin, "replay", "-prop", "C08R", "-in", cases, "-fail", fail, "-sum", summ, "-modes", modes, "-stride", str(stride)]
            p = subprocess.run(cmd, capture_output=True, text=True, timeout=3000, env=env)
            crash = None
            if p.returncode != 0:
                # The Go runtime itself ends the process when it sees a map read and written by several goroutines at
                # once.  Inside the library that is what C08 excludes: it is a verdict only if it happens again in a second
                # process and the dying goroutine stands in the library; anything else is an infrastructure failure.
                def fatal(out):
                    m = re.search(r"fatal error: concurrent map [^\n]*", out)
                    if not m:
                        return None
                    first = out[m.start():].split("\n\ngoroutine ", 2)
                    top = "\n\ngoroutine ".join(first[:2])
                    return (m.group(0), top[:1800]) if "github.com/antonmedv/expr" in top else None
                f1 = fatal(p.stdout + p.stderr)
                if f1 is None:
                    raise vf.Infra("race harness failed rc=%d\n%s" % (p.returncode, (p.stdout + p.stderr)[-3000:]))
                p2 = subprocess.run(cmd, capture_output=True, text=True, timeout=3000, env=env)
                f2 = fatal(p2.stdout + p2.stderr) if p2.returncode != 0 else None
                if f2 is None:
                    raise vf.Infra("the race harness died once of '%s' and not when run again\n%s" % (f1[0], f1[1]))
                crash = f2
            if crash:
                sm = {"prop": "C08", "cases": 0, "executions": 2, "programs": 0, "failures": 0, "skipped": {}, "stats": {},
                      "samples": [], "nontrivial": 0}
                fs = [{"why": "fatal-concurrent-map-access", "src": "(free-running goroutines over the corpus %s)" % name, "mode": modes,
                       "got": {"err": crash[1]}, "tags": [crash[0] + " (the process died; reproduced in a second process)"]}]
            else:
                sm = json.load(open(summ))
                fs = vf.load_failures(fail)
            # reports of the race detector that name a frame of the library
            reports = []
            for fn in os.listdir(d):
                if fn.startswith("race."):
                    txt = open(os.path.join(d, fn), errors="replace").read()
                    for block in txt.split("=================="):
                        if "DATA RACE" in block and "github.com/antonmedv/expr" in block:
                            reports.append(block.strip())
            seen = set()
            for b in reports:
                frames = [l.strip() for l in b.splitlines() if "github.com/antonmedv/expr" in l and "(" in l]
                sig = tuple(frames[:2])
                if sig in seen:
                    continue
                seen.add(sig)
                fs.append({"why": "data-race", "src": "(free-running goroutines over the corpus %s)" % name, "mode": modes,
                           "got": {"err": b[:1500]}, "tags": list(sig)})
            sm["failures"] = len(fs)
            sm.setdefault("stats", {})["race detector reports naming the library"] = len(reports)
            acc.add_summary(sm)
            for x in fs:
                x["prop"] = "C08"
                x["stage"] = name
            acc.failures += fs
            vf.log("[C08] stage %-22s tlc: %d cases  real executions under -race: %d  race reports: %d  failures: %d" % (
                name, st.get("cases", 0), sm["executions"], len(reports), len(fs)))
    return Stage(name, "MC_Expr", gcfg, func=f)


def stages_C08(tier):
    out = [Stage("mc-2vm", "Conc", conc_cfg(2, 40, "none"), kind="mc", workers=vf.NCPU, timeout=1800),
           Stage("sched-2vm", "Conc", conc_cfg(2, 40, "cases", view=False), "C08S", modes="struct:noopt",
                 simulate=300 if tier == "quick" else 3000, depth=200, warm=False),
           Stage("sched-3vm", "Conc", conc_cfg(3, 60, "cases", view=False), "C08S", modes="struct:noopt",
                 simulate=150 if tier == "quick" else 1500, depth=300, warm=False)]
    if tier == "thorough":
        out.append(Stage("mc-3vm", "Conc", conc_cfg(3, 3, "none"), kind="mc", workers=vf.NCPU, timeout=3000))
    st = 9 if tier == "quick" else 2
    out.append(race_stage("race-mixed", "mixed", 4, "ptr:opt,map:noopt", st))
    out.append(race_stage("race-string", "string", 4, "ptr:opt", st))
    out.append(race_stage("race-coll", "coll", 4, "ptr:opt", st))
    out.append(race_stage("race-builtin", "builtin", 5, "ptr:opt", st))
    return out


C08_RULE = ("(a) TLC (Conc.tla): 2 (thorough: also 3) machines over 5 shared programs - arithmetic, a loop, an allocating "
            "range, a call, a failing index - every interleaving at instruction granularity: Isolation (a finished machine "
            "returned the reference outcome) and SharedUntouched; (b) random interleavings of 2 and 3 machines (tlc "
            "-simulate) are replayed on real goroutines: the verif hook is the gate, each real VM executes its next "
            "instruction exactly when the schedule says so; every run must return what it returns alone and what the "
            "reference assigns, the shared program image and environment must be unchanged; (c) for every 9th (2nd) case "
            "of three corpora: 6 goroutines compile the source concurrently against one sample environment (programs "
            "must be identical) and run one FRESH program twice each on one shared environment (results must equal the "
            "sequential one), and 24 goroutines compile against four environment types with embedded structs, all in a "
            "binary built with -race: a race report naming a frame of the library is a failure")


def check_C08(tier):
    return run_check("C08", tier, stages_C08(tier), C08_RULE,
                     assumptions=EVAL_ASSUME + ["the Go race detector is an observer outside the TLA+ family: it reports the "
                                                "unsynchronised accesses of the schedules that happened to run",
                                                "gated replay interleaves at instruction boundaries (the hook fires after "
                                                "each instruction)"])


CHECKS = {"C08": check_C08, "C16": check_C16, "C04": check_C04, "C03": check_C03, "C13": check_C13, "C12": check_C12, "C11": check_C11, "C17": check_C17, "C09": check_C09, "C10": check_C10, "C01": check_C01, "C02": check_C02, "C05": check_C05, "C06": check_C06, "C07": check_C07,
          "C14": check_C14, "C15": check_C15, "C18": check_C18}
STAGES = {"C08": stages_C08, "C16": stages_C16, "C04": stages_C04, "C03": stages_C03, "C13": stages_C13, "C12": stages_C12, "C11": stages_C11, "C17": stages_C17, "C09": stages_C09, "C10": stages_C10, "C01": stages_C01, "C02": stages_C02, "C05": stages_C05, "C06": stages_C06, "C07": stages_C07,
          "C14": stages_C14, "C15": stages_C15, "C18": stages_C18}


def warm():
    """Pre-compute every quick corpus that does not depend on the seed."""
    vf.prune_cache()
    jobs = []
    for prop, fn in STAGES.items():
        for s in fn("quick"):
            if s.warm and s.module and not s.simulate:
                jobs.append((prop, s))
    t0 = time.time()

    def one(job):
        prop, s = job
        st = vf.run_tlc(s.module, s.cfg, workers=s.workers, timeout=s.timeout, name="warm-" + prop + "-" + s.name)
        return prop, s.name, st

    with concurrent.futures.ThreadPoolExecutor(max_workers=max(2, vf.NCPU // 2)) as ex:
        for prop, name, st in ex.map(one, jobs):
            vf.log("warm %s %-22s %d cases %s" % (prop, name, st.get("cases", 0), "(cached)" if st.get("cached") else "%ss" % st.get("wall_s")))
    vf.log("warm: %d corpora in %.1fs" % (len(jobs), time.time() - t0))


def replay_one(prop, path):
    """Re-execute the stage a stored replay file came from on the current /repo
    and report whether the same (why, source, mode) still fails."""
    f = json.load(open(path))
    binary = vf.build_harness()
    for tier in ("quick", "thorough"):
        for s in STAGES[prop](tier):
            if s.name != f.get("stage"):
                continue
            acc = Acc(prop, tier)
            run_stage(acc, binary, s)
            hits = [g for g in acc.failures
                    if (g.get("why"), g.get("src"), g.get("mode")) == (f.get("why"), f.get("src"), f.get("mode"))]
            print(json.dumps({"reproduced": bool(hits), "stage": s.name, "failures_like_it": len(hits)}))
            if hits:
                print("VIOLATION property=%s replay=%s" % (prop, path))
                return 1
            return 0
    raise vf.Infra("replay file names no known stage: %r" % f.get("stage"))

"""Per-property checks: each property is a list of stages (see vf.py)."""
import concurrent.futures
import json
import os
import time

import vf

GEN_SUBST = {
    "Leaves": ("<-", "F_Leaves"), "ElemLeaves": ("<-", "F_ElemLeaves"), "UnOps": ("<-", "F_UnOps"),
    "BinOps": ("<-", "F_BinOps"), "Props": ("<-", "F_Props"), "Meths": ("<-", "F_Meths"),
    "Funcs": ("<-", "F_Funcs"), "Builtins": ("<-", "F_Builtins"), "UseLen": ("<-", "F_UseLen"),
    "UseCond": ("<-", "F_UseCond"), "UseIdx": ("<-", "F_UseIdx"), "SliceShapes": ("<-", "F_SliceShapes"),
    "ArrLens": ("<-", "F_ArrLens"), "MapLens": ("<-", "F_MapLens"), "Guard": ("<-", "F_Guard"),
    "OrderGuard": ("<-", "F_OrderGuard"),
}


def gen_cfg(family, maxnodes, maxclosure=2, emit="cases", invariants=("Emit",), extra=None):
    c = dict(GEN_SUBST)
    c.update(Family=family, EmitMode=emit, MaxNodes=maxnodes, MaxClosure=maxclosure)
    c.update(extra or {})
    return vf.cfg_text(c, invariants=invariants)


class Stage:
    """One stage: a TLC run (cases and/or model checking) + a harness driver."""

    def __init__(self, name, module, cfg, driver=None, modes=None, workers=1, simulate=None, depth=None,
                 timeout=900, extra_args=None, kind="replay", warm=True, func=None):
        self.name, self.module, self.cfg, self.driver = name, module, cfg, driver
        self.modes, self.workers, self.simulate, self.depth = modes, workers, simulate, depth
        self.timeout, self.extra_args, self.kind, self.warm, self.func = timeout, extra_args, kind, warm, func


class Acc:
    """Accumulates coverage over the stages of one check."""

    def __init__(self, prop, tier):
        self.prop, self.tier = prop, tier
        self.t0 = time.time()
        self.states = 0
        self.transitions = 0
        self.cases = 0
        self.execs = 0
        self.programs = 0
        self.nontrivial = 0
        self.failures = []
        self.samples = []
        self.stages = []
        self.skipped = {}
        self.extra = {}

    def add_tlc(self, name, st):
        self.states += st.get("distinct", 0)
        self.transitions += st.get("generated", 0)
        self.stages.append({"stage": name, "tlc_states": st.get("distinct", 0), "tlc_generated": st.get("generated", 0),
                            "cases": st.get("cases", 0), "tlc_wall_s": st.get("wall_s"), "cached": st.get("cached", False)})

    def add_summary(self, summ):
        self.cases += summ["cases"]
        self.execs += summ["executions"]
        self.programs += summ["programs"]
        self.nontrivial += summ["nontrivial"]
        for k, v in (summ.get("skipped") or {}).items():
            self.skipped[k] = self.skipped.get(k, 0) + v
        for k, v in (summ.get("stats") or {}).items():
            self.extra.setdefault("stats", {})
            self.extra["stats"][k] = self.extra["stats"].get(k, 0) + v
        if len(self.samples) < 6:
            self.samples += summ["samples"][:2]
        if self.stages:
            self.stages[-1].update(executions=summ["executions"], failures=summ["failures"])

    def coverage(self, rule, explanation=None):
        cov = {
            "states": max(self.states, 1), "transitions": max(self.transitions, 1),
            "traces_validated_against_impl": self.execs,
            "evaluations": max(self.execs, 1), "distinct_nontrivial": self.nontrivial,
            "programs": self.programs, "cases": self.cases,
            "rule": rule, "samples": self.samples[:6] or ["(none)"],
            "stages": self.stages, "skipped": self.skipped,
        }
        cov.update(self.extra)
        if explanation:
            cov["explanation"] = explanation
        return cov


def run_stage(acc, binary, s):
    if s.func:
        return s.func(acc, binary, s)
    with vf.Scratch(acc.prop + "-" + s.name) as d:
        cases = os.path.join(d, "cases.ndjson")
        st = vf.run_tlc(s.module, s.cfg, out_cases=cases, workers=s.workers, simulate=s.simulate, depth=s.depth,
                        timeout=s.timeout, name=acc.prop + "-" + s.name)
        acc.add_tlc(s.name, st)
        if s.kind == "mc":
            vf.log("[%s] stage %-22s tlc: %d states, %d generated (%ss%s)  design-level invariants hold" % (
                acc.prop, s.name, st.get("distinct", 0), st.get("generated", 0), st.get("wall_s"),
                ", cached" if st.get("cached") else ""))
            return
        fail = os.path.join(d, "fail.ndjson")
        summ = os.path.join(d, "sum.json")
        args = ["replay", "-prop", s.driver, "-in", cases, "-fail", fail, "-sum", summ]
        if s.modes:
            args += ["-modes", s.modes]
        args += s.extra_args or []
        vf.run_harness(binary, args)
        sm = json.load(open(summ))
        acc.add_summary(sm)
        fs = vf.load_failures(fail)
        for f in fs:
            f["prop"] = acc.prop
            f["stage"] = s.name
        acc.failures += fs
        vf.log("[%s] stage %-22s tlc: %d states %d cases (%ss%s)  real executions: %d  failures: %d" % (
            acc.prop, s.name, st.get("distinct", 0), st.get("cases", 0), st.get("wall_s"),
            ", cached" if st.get("cached") else "", sm["executions"], sm["failures"]))


def run_check(prop, tier, stages, rule, level="model_checking", assumptions=None, race=False):
    acc = Acc(prop, tier)
    binary = vf.build_harness(race=race)
    only = os.environ.get("VERIF_ONLY")
    for s in stages:
        if only and not s.name.startswith(only):
            continue
        run_stage(acc, binary, s)
    cov = acc.coverage(rule)
    return vf.conclude(prop, tier, level, acc.t0, acc.failures, cov, assumptions=assumptions)


# ---------------------------------------------------------------------------
# C01

C01_FAMILIES = {
    "quick": [("arith", 4), ("logic", 4), ("string", 4), ("coll", 4), ("access", 4), ("builtin", 5), ("mixed", 4)],
    "thorough": [("arith", 5), ("logic", 5), ("string", 5), ("coll", 5), ("access", 5), ("builtin", 6), ("mixed", 5)],
}
EVAL_ASSUME = ["harness Abs/Concretize projection (harness/val.go) is faithful",
               "TLC evaluates Sem!Eval as written",
               "values outside the model universe (|n| >= 2^29, non-dyadic floats, general regexps) are not generated"]
EVAL_RULE = ("every well-typed expression of each family up to the node budget (TLC breadth-first over the derivation "
             "machine Gen.tla; one derivation per tree, so cases are distinct by construction) x every assignment of "
             "the 1-6 values of each mentioned environment member; beyond the budget random derivations "
             "(tlc -simulate, seeded by VERIF_SEED); non-trivial = mentions an environment member, calls a function, "
             "or has >= 3 nodes")


def stages_C01(tier):
    out = []
    for fam, n in C01_FAMILIES[tier]:
        out.append(Stage("%s-n%d" % (fam, n), "MC_Expr", gen_cfg(fam, n), "C01", modes="struct:opt,struct:noopt"))
    sim_n = 300 if tier == "quick" else 4000
    for fam in ("mixed", "builtin", "access"):
        out.append(Stage("%s-sim" % fam, "MC_Expr", gen_cfg(fam, 12, maxclosure=3), "C01",
                         modes="struct:opt,struct:noopt", simulate=sim_n, depth=14, warm=False))
    return out


def check_C01(tier):
    return run_check("C01", tier, stages_C01(tier), EVAL_RULE, assumptions=EVAL_ASSUME)


CHECKS = {"C01": check_C01}
STAGES = {"C01": stages_C01}


def warm():
    """Pre-compute every quick corpus that does not depend on the seed."""
    jobs = []
    for prop, fn in STAGES.items():
        for s in fn("quick"):
            if s.warm and s.module and not s.simulate:
                jobs.append((prop, s))
    t0 = time.time()

    def one(job):
        prop, s = job
        st = vf.run_tlc(s.module, s.cfg, workers=s.workers, timeout=s.timeout, name="warm-" + prop + "-" + s.name)
        return prop, s.name, st

    with concurrent.futures.ThreadPoolExecutor(max_workers=max(2, vf.NCPU // 2)) as ex:
        for prop, name, st in ex.map(one, jobs):
            vf.log("warm %s %-22s %d cases %s" % (prop, name, st.get("cases", 0), "(cached)" if st.get("cached") else "%ss" % st.get("wall_s")))
    vf.log("warm: %d corpora in %.1fs" % (len(jobs), time.time() - t0))


def replay_one(prop, path):
    """Re-execute one stored replay file on the current /repo."""
    f = json.load(open(path))
    binary = vf.build_harness()
    with vf.Scratch("replay") as d:
        inp = os.path.join(d, "one.json")
        with open(inp, "w") as fh:
            json.dump(f, fh)
        out = vf.run_harness(binary, ["replay1", "-in", inp])
        print(out)
        res = json.loads(out.strip().splitlines()[-1])
        return 1 if res.get("reproduced") else 0

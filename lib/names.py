"""C16: generate Go environment types from TLC-emitted shapes, build and run them (typegen)."""
import json
import os
import shutil
import subprocess

import vf

INNER = '''
type I1 struct{ A int }
type I2 struct {
	A string
	B int
}
type I3 struct{ c int }

func (I3) M() int { return 3 }

type I4 struct{ B int }

func (*I4) M() int { return 4 }

type I5 struct{ M func() int }

type u1 struct{ Q int }

type D struct {
	I1
	B string
}
type E struct {
	*I4
	c int
}
'''
INNER_VAL = {"u1": "u1{Q: 71}", "I5": "I5{M: func() int { return 55 }}", "I1": "I1{A: 11}", "I2": 'I2{A: "s2", B: 22}', "I3": "I3{c: 33}", "I4": "I4{B: 44}",
             "D": 'D{I1: I1{A: 51}, B: "sd"}', "E": "E{I4: &I4{B: 64}, c: 65}"}
FIELD_VAL = {("A", "int"): "1", ("A", "string"): '"a"', ("B", "int"): "2", ("c", "int"): "3"}


def gen_maps(cases):
    """Go declarations and registry for the map environment shapes (Resolve!MapShapes)."""
    out, reg = [], ["var mapShapes = []mapShape{"]
    for i, c in enumerate(cases):
        ety = "interface{}" if c["elem"] == "any" else "int"
        under = "map[string]%s" % ety
        tn = under
        if c["named"]:
            tn = "MT%d" % i
            out.append("type %s %s" % (tn, under))
            if c["method"] == "val":
                out.append("func (%s) M() int { return 100 }" % tn)
        items = ['"A": 1'] + (['"G": func() int { return 7 }'] if c["elem"] == "any" else [])
        decl = ("type T " + under if c["named"] else under) + (" + func (T) M()" if c["method"] == "val" else "")
        reg.append("\t{Decl: %s, Val: %s{%s}, Names: %s}," % (json.dumps(decl), tn, ", ".join(items), json.dumps(json.dumps(c["names"]))))
    reg.append("}")
    return "\n".join(out) + "\n\n" + "\n".join(reg) + "\n"


def gen(cases):
    maps = [c for c in cases if c.get("kind") == "map"]
    cases = [c for c in cases if c.get("kind") != "map"]
    out = ["package main", "", INNER, gen_maps(maps)]
    reg = ["var shapes = []shape{"]
    for i, c in enumerate(cases):
        tn = "T%d" % i
        fields, lits, decl = [], [], []
        for m in c["members"]:
            if m["k"] == "field":
                fields.append("\t%s %s" % (m["name"], m["ty"]))
                lits.append("%s: %s" % (m["name"], FIELD_VAL[(m["name"], m["ty"])]))
                decl.append("%s %s" % (m["name"], m["ty"]))
            else:
                fields.append("\t%s%s" % ("*" if m["ptr"] else "", m["ty"]))
                lits.append("%s: %s%s" % (m["ty"], "&" if m["ptr"] else "", INNER_VAL[m["ty"]]))
                decl.append("%s%s" % ("*" if m["ptr"] else "", m["ty"]))
        out.append("type %s struct {\n%s\n}" % (tn, "\n".join(fields)))
        d = "struct{ " + "; ".join(decl) + " }"
        if c["method"] == "val":
            out.append("func (%s) M() int { return 100 }" % tn)
            d += " + func (T) M()"
        elif c["method"] == "ptr":
            out.append("func (*%s) M() int { return 101 }" % tn)
            d += " + func (*T) M()"
        lit = "%s{%s}" % (tn, ", ".join(lits))
        reg.append("\t{ID: %d, Decl: %s, Val: %s, Ptr: &%s, Names: %s}," % (i, json.dumps(d), lit, lit, json.dumps(json.dumps(c["names"]))))
    reg.append("}")
    return "\n".join(out) + "\n\n" + "\n".join(reg) + "\n"


def run(cases_path, scratch):
    """Returns (summary dict, failures list)."""
    cases = [json.loads(l) for l in open(cases_path) if l.strip()]
    d = os.path.join(scratch, "names")
    os.makedirs(d, exist_ok=True)
    with open(os.path.join(d, "shapes_gen.go"), "w") as fh:
        fh.write(gen(cases))
    shutil.copy(os.path.join(vf.HARNESS_SRC, "names", "runner.go.txt"), os.path.join(d, "main.go"))
    with open(os.path.join(d, "go.mod"), "w") as fh:
        fh.write(open(os.path.join(vf.HARNESS_SRC, "go.mod")).read().replace("module verif/harness", "module verif/names")
                 .replace("=> /repo", "=> " + vf.REPO))
    shutil.copy(os.path.join(vf.REPO, "go.sum"), os.path.join(d, "go.sum"))
    p = subprocess.run(["go", "build", "-tags", "verif", "-o", "names", "."], cwd=d, env=vf.goenv(), capture_output=True, text=True)
    if p.returncode != 0:
        raise vf.Infra("generated environment types do not build:\n" + (p.stdout + p.stderr)[-3000:])
    fail, summ = os.path.join(d, "fail.ndjson"), os.path.join(d, "sum.json")
    p = subprocess.run([os.path.join(d, "names"), fail, summ], capture_output=True, text=True, timeout=1800)
    if p.returncode != 0:
        raise vf.Infra("C16 runner failed rc=%d\n%s" % (p.returncode, (p.stdout + p.stderr)[-3000:]))
    return json.load(open(summ)), vf.load_failures(fail)

"""Orchestration library shared by all checks (see DESIGN.md sections 5 and 9).

A check is a sequence of stages.  A stage runs TLC on a module of /verif/spec
(model checking the design and/or emitting cases), feeds the emitted cases to a
driver of the Go harness built from /repo's working tree, and collects the
failures.  Failures are then attributed to known findings; what remains is a
VIOLATION.  Exit codes: 0 held, 1 violation, 2 infrastructure failure.
"""
import hashlib
import json
import os
import re
import shutil
import subprocess
import sys
import time

ROOT = os.path.dirname(os.path.dirname(os.path.abspath(__file__)))
SPEC = os.path.join(ROOT, "spec")
HARNESS_SRC = os.path.join(ROOT, "harness")
BUILD = os.path.join(ROOT, ".build")
CACHE = os.path.join(ROOT, ".cache")
SCRATCH = os.path.join(ROOT, ".scratch")
EVIDENCE = os.environ.get("VERIF_EVIDENCE_DIR") or os.path.join(ROOT, "evidence")
REPLAYS = os.path.join(ROOT, "replays")
KNOWN = os.path.join(ROOT, "known_findings.json")
TLA_JAR = "/opt/veriftools/tla/tla2tools.jar"
TLA_CP = TLA_JAR + ":/opt/veriftools/tla/CommunityModules-deps.jar"
NCPU = os.cpu_count() or 4


class Infra(Exception):
    """An infrastructure failure: never a verdict."""


def goenv():
    env = dict(os.environ)
    env.update(GOFLAGS="-mod=mod", GOPROXY="off", GOSUMDB="off", GOTOOLCHAIN="local")
    return env


def log(*a):
    print(*a, file=sys.stderr, flush=True)


def seed():
    try:
        return int(os.environ.get("VERIF_SEED", "1"))
    except ValueError:
        return 1


REPO = os.environ.get("VERIF_REPO") or "/repo"   # developer aid: bin/seeded points the checks at a scratch copy


def build_harness(race=False):
    """Build the harness against the repository's current working tree (hooks on)."""
    os.makedirs(BUILD, exist_ok=True)
    tag = "" if REPO == "/repo" else "-" + hashlib.sha256(REPO.encode()).hexdigest()[:10]
    out = os.path.join(BUILD, ("harness-race" if race else "harness") + tag)
    cmd = ["go", "build", "-tags", "verif"] + (["-race"] if race else [])
    if REPO == "/repo":
        shutil.copy("/repo/go.sum", os.path.join(HARNESS_SRC, "go.sum"))
    else:
        mod = os.path.join(HARNESS_SRC, "go%s.mod" % tag)
        with open(mod, "w") as fh:
            fh.write(open(os.path.join(HARNESS_SRC, "go.mod")).read().replace("=> /repo", "=> " + REPO))
        shutil.copy(os.path.join(REPO, "go.sum"), mod[:-4] + ".sum")
        cmd += ["-modfile", mod]
    cmd += ["-o", out, "."]
    env = goenv()
    if REPO != "/repo":
        env["GOFLAGS"] = "-mod=mod"
    p = subprocess.run(cmd, cwd=HARNESS_SRC, env=env, capture_output=True, text=True)
    if p.returncode != 0:
        raise Infra("harness does not build against %s:\n" % REPO + p.stdout + p.stderr)
    return out


_DEP_RE = re.compile(r"^\s*(?:EXTENDS|INSTANCE)\s+(.*)$|==\s*INSTANCE\s+(\w+)", re.M)


def spec_closure(module):
    """The specification modules `module` depends on (EXTENDS / INSTANCE, transitively)."""
    seen, todo = [], [module]
    while todo:
        m = todo.pop()
        path = os.path.join(SPEC, m + ".tla")
        if m in seen or not os.path.exists(path):
            continue
        seen.append(m)
        text = open(path).read()
        for a, b in _DEP_RE.findall(text):
            for name in re.split(r"[,\s]+", (a or b).split("WITH")[0]):
                if name:
                    todo.append(name)
    return sorted(seen)


def spec_digest(module=None):
    """Digest of the text of `module` and of every module it depends on (all modules when None)."""
    h = hashlib.sha256()
    if module is None:
        files = sorted(f[:-4] for f in os.listdir(SPEC) if f.endswith(".tla"))
    else:
        files = spec_closure(module)
    for f in files:
        h.update(f.encode())
        h.update(open(os.path.join(SPEC, f + ".tla"), "rb").read())
    return h.hexdigest()


class Scratch:
    _n = 0

    def __init__(self, name):
        Scratch._n += 1
        self.path = os.path.join(SCRATCH, "%s-%d-%d-%d" % (name, os.getpid(), int(time.time() * 1000) % 100000, Scratch._n))

    def __enter__(self):
        os.makedirs(self.path, exist_ok=True)
        return self.path

    def __exit__(self, *a):
        shutil.rmtree(self.path, ignore_errors=True)


def cfg_text(constants, init="Init", next_="Next", invariants=(), properties=(), view=None,
             constraint=None, postcondition=None, deadlock=False, spec=None):
    lines = []
    if constants:
        lines.append("CONSTANTS")
        for k, v in constants.items():
            if isinstance(v, tuple) and v[0] == "<-":
                lines.append("  %s <- %s" % (k, v[1]))
            elif isinstance(v, bool):
                lines.append("  %s = %s" % (k, "TRUE" if v else "FALSE"))
            elif isinstance(v, int):
                lines.append("  %s = %d" % (k, v))
            else:
                lines.append('  %s = "%s"' % (k, v))
    if spec:
        lines.append("SPECIFICATION " + spec)
    else:
        lines.append("INIT " + init)
        lines.append("NEXT " + next_)
    for i in invariants:
        lines.append("INVARIANT " + i)
    for p in properties:
        lines.append("PROPERTY " + p)
    if view:
        lines.append("VIEW " + view)
    if constraint:
        lines.append("CONSTRAINT " + constraint)
    if postcondition:
        lines.append("POSTCONDITION " + postcondition)
    lines.append("CHECK_DEADLOCK " + ("TRUE" if deadlock else "FALSE"))
    return "\n".join(lines) + "\n"


STATS_RE = re.compile(r"(\d+) states generated, (\d+) distinct states found")
SIM_RE = re.compile(r"The number of states generated: (\d+)")


def run_tlc(module, cfg, out_cases=None, workers=None, simulate=None, depth=None, timeout=600,
            extra_files=None, heap="8g", name=None, allow_invariant_violation=False):
    """Run TLC on spec/<module>.tla with the given cfg text.

    Lines of the form "{...}" printed by the specification (PrintT(ToJson(..)))
    are written, decoded, to out_cases (ndjson).  Returns a dict with TLC's own
    counters.  Any TLC error is an infrastructure failure, never a verdict.
    Results are cached on (spec files, cfg, mode): cases are a function of the
    specification alone, never of /repo.
    """
    key = hashlib.sha256()
    key.update(spec_digest(module).encode())
    key.update(module.encode())
    key.update(cfg.encode())
    key.update(repr((simulate, depth, seed() if simulate else 0)).encode())
    for f in sorted(extra_files or {}):
        key.update(f.encode())
        key.update(extra_files[f] if isinstance(extra_files[f], bytes) else extra_files[f].encode())
    digest = key.hexdigest()[:24]
    cdir = os.path.join(CACHE, digest)
    cstats = os.path.join(cdir, "stats.json")
    ccases = os.path.join(cdir, "cases.ndjson")
    if os.path.exists(cstats) and not extra_files:
        stats = json.load(open(cstats))
        if out_cases:
            shutil.copy(ccases, out_cases)
        stats["cached"] = True
        return stats

    if workers is None:
        workers = NCPU
    t0 = time.time()
    with Scratch(name or module) as d:
        for f in os.listdir(SPEC):
            if f.endswith(".tla"):
                shutil.copy(os.path.join(SPEC, f), d)
        for f, content in (extra_files or {}).items():
            mode = "wb" if isinstance(content, bytes) else "w"
            with open(os.path.join(d, f), mode) as fh:
                fh.write(content)
        with open(os.path.join(d, module + ".cfg"), "w") as fh:
            fh.write(cfg)
        tmp = os.path.join(d, "tmp")
        os.makedirs(tmp)
        cmd = ["java", "-XX:+UseParallelGC", "-Xmx" + heap, "-Xss512m", "-Djava.io.tmpdir=" + tmp,
               "-cp", TLA_CP, "tlc2.TLC", "-workers", str(workers), "-metadir", os.path.join(d, "meta"),
               "-nowarning"]
        if simulate:
            cmd += ["-simulate", "num=%d" % simulate, "-depth", str(depth or 20), "-seed", str(seed())]
        cmd += [module + ".tla"]
        tmp_cases = os.path.join(d, "cases.ndjson")
        ncases = 0
        tail = []
        err = None
        stats = {"generated": 0, "distinct": 0}
        try:
            with open(tmp_cases, "w") as co:
                p = subprocess.Popen(cmd, cwd=d, stdout=subprocess.PIPE, stderr=subprocess.STDOUT, text=True)
                try:
                    deadline = t0 + timeout
                    for line in p.stdout:
                        if line.startswith('"{'):
                            try:
                                co.write(json.loads(line) + "\n")
                                ncases += 1
                            except Exception:
                                err = "undecodable case line"
                        else:
                            tail.append(line.rstrip("\n"))
                            if len(tail) > 60:
                                tail.pop(0)
                            m = STATS_RE.search(line)
                            if m:
                                stats["generated"] = int(m.group(1))
                                stats["distinct"] = int(m.group(2))
                            m = SIM_RE.search(line)
                            if m:
                                stats["generated"] = int(m.group(1))
                                stats["distinct"] = int(m.group(1))
                            if line.startswith("Error:") and err is None:
                                err = line.strip()
                        if time.time() > deadline:
                            p.kill()
                            raise Infra("TLC timeout after %ds on %s" % (timeout, module))
                    p.wait()
                finally:
                    if p.poll() is None:
                        p.kill()
            if err or p.returncode not in (0,):
                if simulate and p.returncode == 0:
                    pass
                else:
                    raise Infra("TLC failed on %s (rc=%s): %s\n%s" % (module, p.returncode, err, "\n".join(tail[-40:])))
            stats["cases"] = ncases
            stats["spec"] = spec_digest(module)
            stats["module"] = module
            stats["wall_s"] = round(time.time() - t0, 2)
            stats["cached"] = False
            if not extra_files:
                os.makedirs(cdir, exist_ok=True)
                shutil.copy(tmp_cases, ccases)
                with open(cstats, "w") as fh:
                    json.dump(stats, fh)
            if out_cases:
                shutil.copy(tmp_cases, out_cases)
        finally:
            pass
    return stats


def prune_cache():
    """Drop cached corpora computed from another version of the specification."""
    if not os.path.isdir(CACHE):
        return
    cur = {}
    for d in os.listdir(CACHE):
        st = os.path.join(CACHE, d, "stats.json")
        try:
            js = json.load(open(st))
            m = js.get("module")
            if m not in cur:
                cur[m] = spec_digest(m)
            ok = m is not None and js.get("spec") == cur[m]
        except Exception:
            ok = False
        if not ok:
            shutil.rmtree(os.path.join(CACHE, d), ignore_errors=True)


def _limit_memory():
    # a runaway real execution (the watchdog gives up after 20 s but cannot stop the goroutine) must end as a Go
    # "fatal error: out of memory" attributable to its case, not as an out-of-memory kill of the whole machine
    import resource
    resource.setrlimit(resource.RLIMIT_AS, (12 << 30, 12 << 30))


def run_harness(binary, args, timeout=1800, ok=(0,)):
    try:
        p = subprocess.run([binary] + args, capture_output=True, text=True, timeout=timeout, env=goenv(),
                           preexec_fn=None if "race" in os.path.basename(binary) else _limit_memory)
    except subprocess.TimeoutExpired as e:
        raise Infra("harness %s: timeout after %ss (signal)\n%s" % (" ".join(args[:3]), timeout, (e.stderr or b"")[-1500:]))
    if p.returncode < 0:
        raise Infra("harness %s died of signal %d\n%s\n[...]\n%s" % (" ".join(args[:3]), -p.returncode, p.stderr[:3000], p.stderr[-1500:]))
    if p.returncode in ok:
        return p.returncode
    if p.returncode not in (0,):
        raise Infra("harness %s failed rc=%d\n%s\n%s\n[...]\n%s" % (" ".join(args[:3]), p.returncode, p.stdout[-3000:], p.stderr[:3000], p.stderr[-1500:]))
    return p.stdout


def load_failures(path):
    out = []
    if os.path.exists(path):
        for line in open(path):
            line = line.strip()
            if line:
                out.append(json.loads(line))
    return out


# ---------------------------------------------------------------------------
# known findings

def load_known():
    if not os.path.exists(KNOWN):
        return []
    data = json.load(open(KNOWN))
    return [k for k in data.get("findings", []) if k.get("status", "open") == "open"]


def _match(f, k):
    """Does failure f fall under known finding k?  (DESIGN.md section 5)"""
    if k["property"] != f.get("prop"):
        return False
    m = k.get("match", {})
    if not m:
        return False
    for key, want in m.items():
        if key == "deviation":
            if want not in (f.get("devmatch") or []):
                return False
        elif key == "src":
            if f.get("src") != want:
                return False
        elif key == "src_regex":
            if not re.search(want, f.get("src") or ""):
                return False
        elif key == "tag":
            if want not in (f.get("tags") or []):
                return False
        elif key == "tag_regex":
            if not any(re.search(want, t) for t in (f.get("tags") or [])):
                return False
        elif key == "err_regex":
            got = f.get("got") or {}
            text = (got.get("err") or "") + (got.get("panic") or "")
            if not re.search(want, text):
                return False
        else:
            if f.get(key) != want:
                return False
    return True


def attribute(prop, failures):
    """Split failures into (violations, {finding id: [failures]})."""
    known = [k for k in load_known() if k["property"] == prop]
    viol, attributed = [], {}
    for f in failures:
        hit = None
        for k in known:
            if _match(f, k):
                hit = k
                break
        if hit is None:
            viol.append(f)
        else:
            attributed.setdefault(hit["id"], []).append(f)
    return viol, attributed, {k["id"]: k for k in known}


# ---------------------------------------------------------------------------
# evidence and verdict

def write_evidence(prop, tier, level, coverage, wall, violations, assumptions=None):
    os.makedirs(EVIDENCE, exist_ok=True)
    ev = {
        "property_id": prop,
        "tier": tier,
        "seed": seed(),
        "level": level,
        "coverage": coverage,
        "assumptions": assumptions or [],
        "wall_s": round(wall, 2),
        "violations": violations,
    }
    with open(os.path.join(EVIDENCE, prop + ".json"), "w") as fh:
        json.dump(ev, fh, indent=1)
        fh.write("\n")


def save_replay(prop, failure, idx):
    os.makedirs(REPLAYS, exist_ok=True)
    path = os.path.join(REPLAYS, "%s-%d-%d.json" % (prop, seed(), idx))
    with open(path, "w") as fh:
        json.dump(failure, fh, indent=1)
        fh.write("\n")
    return path


def conclude(prop, tier, level, t0, failures, coverage, assumptions=None, infra=None):
    """Attribute failures, print verdict lines, write evidence, return exit code."""
    if os.environ.get("VERIF_DUMP"):
        with open(os.environ["VERIF_DUMP"], "w") as fh:
            for f in failures:
                fh.write(json.dumps(f) + "\n")
    viol, attributed, known = attribute(prop, failures)
    for kid, fs in sorted(attributed.items()):
        print("KNOWN-FINDING: property=%s %s (%s; %d case(s) this run, e.g. %s)" % (
            prop, known[kid]["what"], kid, len(fs), json.dumps(fs[0].get("src") or fs[0].get("case") or "")[:120]))
    coverage = dict(coverage)
    coverage["known_finding_cases"] = {k: len(v) for k, v in attributed.items()}
    # group violations by a stable signature so one defect yields few replay files
    seen = {}
    for f in viol:
        sig = (f.get("why"), f.get("src"), f.get("mode"), f.get("law"))
        if sig not in seen:
            seen[sig] = f
    paths = []
    for i, f in enumerate(list(seen.values())[:25]):
        paths.append(save_replay(prop, f, i))
    write_evidence(prop, tier, level, coverage, time.time() - t0, len(viol), assumptions)
    for pth in paths:
        print("VIOLATION property=%s replay=%s" % (prop, pth))
    if viol:
        log("%d violating execution(s), %d distinct; first: %s" % (len(viol), len(seen), json.dumps(viol[0])[:1500]))
        return 1
    return 0

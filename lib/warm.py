"""Pre-compute the quick corpora (functions of the specification only)."""
import os
import sys

sys.path.insert(0, os.path.dirname(os.path.abspath(__file__)))
import checks  # noqa: E402
import vf  # noqa: E402

if __name__ == "__main__":
    try:
        checks.warm()
    except vf.Infra as e:
        vf.log("setup: %s" % e)
        sys.exit(2)

package main

// C05 "oversize": the small-scope model (operand range 32) finds the shapes
// whose jump offsets do not fit the operand; the harness inflates the long
// literal of the shape so that the same offsets exceed the real 16-bit operand,
// compiles and runs it.  The compiler must either reject the expression or
// produce a program whose runs yield what the reference semantics assigns.

import (
	"strings"

	"github.com/antonmedv/expr/vm"
)

const ovSmall = 12
const ovBig = 23000

var ovSmallLit = "[" + strings.TrimSuffix(strings.Repeat("0, ", ovSmall), ", ") + "]"
var ovBigLit = "[" + strings.TrimSuffix(strings.Repeat("0, ", ovBig), ", ") + "]"

type OvCase struct {
	Case
	Ovf bool `json:"ovf"`
}

func (r *replayer) ovCase(c OvCase) {
	src := strings.Replace(c.Src, ovSmallLit, ovBigLit, -1)
	if src == c.Src {
		r.sum.Infra = append(r.sum.Infra, "oversize case without the long literal: "+c.Src)
		return
	}
	lg := &Log{}
	for _, m := range r.modes {
		prog, cg := CompileMode(src, m)
		if cg != nil {
			if cg.Panic != "" || cg.Hang {
				r.fail(Failure{Why: "compile-panic", Src: c.Src, Mode: m.String(), Got: cg, Tags: []string{"inflated"}})
				continue
			}
			// C05 speaks about the programs Compile produces: a rejection is never its violation
			if c.Ovf {
				r.sum.Stats["oversize-rejected-by-compile"]++
			} else {
				r.sum.Stats["rejected-by-compile-for-another-reason"]++
			}
			continue
		}
		r.sum.Programs++
		if c.Ovf {
			r.sum.Stats["oversize-accepted"]++
		}
		for i := range c.Runs {
			rc := c.Runs[i]
			e, err := BuildEnv(rc.Env, lg)
			if err != nil {
				r.sum.Infra = append(r.sum.Infra, err.Error())
				continue
			}
			g := RunMode(src, prog, m, e, lg)
			r.sum.Executions++
			if ok, why := conforms(g, rc.Exp, true); !ok {
				exp := rc.Exp
				if len(g.Err) > 300 {
					g.Err = g.Err[:300]
				}
				r.fail(Failure{Why: "oversize-" + why, Src: c.Src, Mode: m.String(), Env: rc.Env,
					Exp: &exp, Got: &g, Tags: []string{"inflated"}})
			}
		}
	}
	if c.Ovf {
		r.sum.Nontrivial++
	}
	c.Runs = nil
	r.sample(c)
}

// budgetCase: C06.  Only the budget verdicts are compared: a run the reference
// refuses for the budget must not complete, a run the reference completes must
// not be refused for the budget.  Other disagreements belong to C01.
func (r *replayer) budgetCase(c Case) {
	lg := &Log{}
	if r.reused == nil {
		r.reused = map[string]*vm.VM{}
	}
	for _, m := range r.modes {
		if r.reused[m.String()] == nil {
			r.reused[m.String()] = &vm.VM{} // one VM value per mode for the whole corpus
		}
		prog, cg := CompileMode(c.Src, m)
		if cg != nil {
			if cg.Panic != "" || cg.Hang {
				r.fail(Failure{Why: "compile-panic", Src: c.Src, Mode: m.String(), Got: cg})
			} else {
				r.sum.Skipped["compile-rejected"]++
			}
			continue
		}
		r.sum.Programs++
		for i := range c.Runs {
			rc := c.Runs[i]
			e, err := BuildEnv(rc.Env, lg)
			if err != nil {
				r.sum.Infra = append(r.sum.Infra, err.Error())
				continue
			}
			for pass := 0; pass < 2; pass++ {
				restore := setBudget(rc.Budget)
				var g Got
				if pass == 0 {
					g = RunMode(c.Src, prog, m, e, lg)
				} else {
					// the same run on a VM value that has performed every earlier run of the corpus
					g = runOn(r.reused[m.String()], prog, m, e, lg)
				}
				restore()
				r.sum.Executions++
				refused := !g.Ok && strings.Contains(g.Err, "memory budget exceeded")
				why := ""
				switch {
				case g.Panic != "" || g.Hang:
					why = "panic"
				case g.Ok && !rc.Exp.Ok && rc.Exp.C == "budget":
					why = "completed-over-budget"
				case refused && rc.Exp.Ok:
					why = "refused-under-budget"
				case refused && !rc.Exp.Ok && rc.Exp.C != "budget":
					why = "refused-under-budget"
				case g.Ok != rc.Exp.Ok:
					r.sum.Stats["non-budget-disagreement"]++
				}
				if !rc.Exp.Ok && rc.Exp.C == "budget" {
					r.sum.Stats["reference-refuses"]++
				} else {
					r.sum.Stats["reference-admits"]++
				}
				if why != "" {
					exp := rc.Exp
					if pass == 1 {
						why = "reusedvm-" + why
					}
					r.fail(Failure{Why: why, Src: c.Src, Mode: m.String(), Env: rc.Env, Budget: rc.Budget,
						Exp: &exp, Got: &g, DevMatch: devMatches(g, rc.Dev, false)})
				}
			}
		}
	}
	r.sum.Nontrivial++
	r.sample(c)
}

package main

// C05 "oversize": the small-scope model (operand range 32) finds the shapes
// whose jump offsets do not fit the operand; the harness inflates the long
// literal of the shape so that the same offsets exceed the real 16-bit operand,
// compiles and runs it.  The compiler must either reject the expression or
// produce a program whose runs yield what the reference semantics assigns.

import (
	"fmt"
	"reflect"
	"strings"

	"github.com/antonmedv/expr/vm"
)

const ovSmall = 12
const ovBig = 23000

var ovSmallLit = "[" + strings.TrimSuffix(strings.Repeat("0, ", ovSmall), ", ") + "]"
var ovBigLit = "[" + strings.TrimSuffix(strings.Repeat("0, ", ovBig), ", ") + "]"

// the literal of family "ovconst": ["a", 2, ..., 12], inflated to ["a", 2, ..., n]
func distinctLit(n int) string {
	var b strings.Builder
	b.WriteString("[\"a\"")
	for i := 2; i <= n; i++ {
		fmt.Fprintf(&b, ", %d", i)
	}
	b.WriteString("]")
	return b.String()
}

var ocSmallLit = distinctLit(12)

// ovConstCase: C05, "programs with more distinct constants than fit a 16-bit
// index".  The literal is inflated so that the constant pool is full or nearly
// full when the constants after it are created; Compile must reject the
// expression or produce a program whose runs conform.
func (r *replayer) ovConstCase(c Case) {
	if !strings.Contains(c.Src, ocSmallLit) {
		return
	}
	r.ocSeen++
	stride := 1
	fmt.Sscan(r.opts["-ocstride"], &stride)
	if stride > 1 && r.ocSeen%stride != 1 {
		return
	}
	sizes := []int{65534, 65535, 65536}
	if r.opts["-ocsizes"] == "one" {
		sizes = []int{65535}
	}
	lg := &Log{}
	for _, n := range sizes {
		src := strings.Replace(c.Src, ocSmallLit, distinctLit(n), -1)
		for _, m := range r.modes {
			prog, cg := CompileMode(src, m)
			tag := fmt.Sprintf("literal of %d distinct constants", n)
			if cg != nil {
				if cg.Panic != "" || cg.Hang {
					r.fail(Failure{Why: "compile-panic", Src: c.Src, Mode: m.String(), Got: cg, Tags: []string{tag}})
				} else {
					r.sum.Stats["rejected by compile ("+tag+")"]++
				}
				continue
			}
			r.sum.Programs++
			r.sum.Stats["accepted ("+tag+")"]++
			if len(prog.Constants) > 65536 {
				r.sum.Stats["accepted with more than 65536 constants"]++
			}
			for i := range c.Runs {
				rc := c.Runs[i]
				e, err := BuildEnv(rc.Env, lg)
				if err != nil {
					r.sum.Infra = append(r.sum.Infra, err.Error())
					continue
				}
				g := RunMode(src, prog, m, e, lg)
				r.sum.Executions++
				if ok, why := conforms(g, rc.Exp, true); !ok {
					exp := rc.Exp
					if len(g.Err) > 300 {
						g.Err = g.Err[:300]
					}
					r.fail(Failure{Why: "constpool-" + why, Src: c.Src, Mode: m.String(), Env: rc.Env,
						Exp: &exp, Got: &g, Tags: []string{tag, fmt.Sprintf("constants in the program: %d", len(prog.Constants))}})
				}
			}
		}
	}
	r.sum.Nontrivial++
	c.Runs = nil
	r.sample(c)
}

type OvCase struct {
	Case
	Ovf bool `json:"ovf"`
}

func zerosLit(n int) string {
	return "[" + strings.TrimSuffix(strings.Repeat("0, ", n), ", ") + "]"
}

func (r *replayer) ovCase(c OvCase) {
	if !strings.Contains(c.Src, ovSmallLit) {
		r.sum.Infra = append(r.sum.Infra, "oversize case without the long literal: "+c.Src)
		return
	}
	r.ovRun(c, strings.Replace(c.Src, ovSmallLit, ovBigLit, -1), "inflated")
	// the boundary: literals whose code ends within a few bytes of the 16-bit limit, so that of two jumps
	// over the same code (a loop's forward exit and its longer backward jump) only one is out of range
	if strings.Contains(c.Src, ", {") && strings.Count(c.Src, ovSmallLit) == 1 {
		r.ocSeen++
		stride := 1
		fmt.Sscan(r.opts["-ovstride"], &stride)
		if stride <= 1 || r.ocSeen%stride == 1 {
			for n := 21825; n <= 21852; n++ {
				r.ovRun(c, strings.Replace(c.Src, ovSmallLit, zerosLit(n), -1), fmt.Sprintf("literal of %d elements", n))
			}
		}
	}
	if c.Ovf {
		r.sum.Nontrivial++
	}
	c.Runs = nil
	r.sample(c)
}

func (r *replayer) ovRun(c OvCase, src, tag string) {
	lg := &Log{}
	for _, m := range r.modes {
		prog, cg := CompileMode(src, m)
		if cg != nil {
			if cg.Panic != "" || cg.Hang {
				r.fail(Failure{Why: "compile-panic", Src: c.Src, Mode: m.String(), Got: cg, Tags: []string{tag}})
				continue
			}
			// C05 speaks about the programs Compile produces: a rejection is never its violation
			if c.Ovf {
				r.sum.Stats["oversize-rejected-by-compile"]++
			} else {
				r.sum.Stats["rejected-by-compile-for-another-reason"]++
			}
			continue
		}
		r.sum.Programs++
		if c.Ovf {
			r.sum.Stats["oversize-accepted"]++
		}
		for i := range c.Runs {
			rc := c.Runs[i]
			e, err := BuildEnv(rc.Env, lg)
			if err != nil {
				r.sum.Infra = append(r.sum.Infra, err.Error())
				continue
			}
			g := RunMode(src, prog, m, e, lg)
			r.sum.Executions++
			if ok, why := conforms(g, rc.Exp, true); !ok {
				exp := rc.Exp
				if len(g.Err) > 300 {
					g.Err = g.Err[:300]
				}
				r.fail(Failure{Why: "oversize-" + why, Src: c.Src, Mode: m.String(), Env: rc.Env,
					Exp: &exp, Got: &g, Tags: []string{tag}})
			}
		}
	}
}

// budgetCase: C06.  Only the budget verdicts are compared: a run the reference
// refuses for the budget must not complete, a run the reference completes must
// not be refused for the budget.  Other disagreements belong to C01.
// span: the memory of a slice's backing array.
type span struct{ lo, hi uintptr }

func spanOf(v reflect.Value) span {
	lo := v.Pointer()
	return span{lo, lo + uintptr(v.Cap())*v.Type().Elem().Size()}
}

// collectSpans: the backing arrays and maps reachable from v (what existed before the run: constants, environment).
func collectSpans(v reflect.Value, spans *[]span, maps map[uintptr]bool, depth int) {
	if depth > 12 || !v.IsValid() {
		return
	}
	switch v.Kind() {
	case reflect.Interface, reflect.Ptr:
		if !v.IsNil() {
			collectSpans(v.Elem(), spans, maps, depth+1)
		}
	case reflect.Slice:
		if v.IsNil() {
			return
		}
		if v.Cap() > 0 {
			*spans = append(*spans, spanOf(v))
		}
		for i := 0; i < v.Len() && i < 64; i++ {
			collectSpans(v.Index(i), spans, maps, depth+1)
		}
	case reflect.Map:
		if v.IsNil() {
			return
		}
		maps[v.Pointer()] = true
		for _, k := range v.MapKeys() {
			collectSpans(v.MapIndex(k), spans, maps, depth+1)
		}
	case reflect.Struct:
		for i := 0; i < v.NumField(); i++ {
			if v.Type().Field(i).PkgPath == "" {
				collectSpans(v.Field(i), spans, maps, depth+1)
			}
		}
	}
}

// createdElements: a lower bound of the collection elements a successful run created - the elements of the distinct
// slices and maps reachable from its result whose storage is neither a constant of the program nor part of the
// environment (a slice of one of those shares its storage and is not counted).
func createdElements(out interface{}, prog *vm.Program, env interface{}) int {
	var old []span
	oldMaps := map[uintptr]bool{}
	for _, c := range prog.Constants {
		collectSpans(reflect.ValueOf(c), &old, oldMaps, 0)
	}
	collectSpans(reflect.ValueOf(env), &old, oldMaps, 0)
	seen := map[uintptr]bool{}
	total := 0
	var walk func(v reflect.Value, depth int)
	walk = func(v reflect.Value, depth int) {
		if depth > 12 || !v.IsValid() {
			return
		}
		switch v.Kind() {
		case reflect.Interface, reflect.Ptr:
			if !v.IsNil() {
				walk(v.Elem(), depth+1)
			}
		case reflect.Slice:
			if v.IsNil() {
				return
			}
			if v.Cap() > 0 {
				p := v.Pointer()
				pre := false
				for _, s := range old {
					if p >= s.lo && p < s.hi {
						pre = true
						break
					}
				}
				if !pre && !seen[p] {
					seen[p] = true
					total += v.Len()
				}
			}
			for i := 0; i < v.Len(); i++ {
				walk(v.Index(i), depth+1)
			}
		case reflect.Map:
			if v.IsNil() {
				return
			}
			if p := v.Pointer(); !oldMaps[p] && !seen[p] {
				seen[p] = true
				total += v.Len()
			}
			for _, k := range v.MapKeys() {
				walk(v.MapIndex(k), depth+1)
			}
		}
	}
	walk(reflect.ValueOf(out), 0)
	return total
}

func (r *replayer) budgetCase(c Case) {
	lg := &Log{}
	if r.reused == nil {
		r.reused = map[string]*vm.VM{}
	}
	for _, m := range r.modes {
		if r.reused[m.String()] == nil {
			r.reused[m.String()] = &vm.VM{} // one VM value per mode for the whole corpus
		}
		prog, cg := CompileMode(c.Src, m)
		if cg != nil {
			if cg.Panic != "" || cg.Hang {
				r.fail(Failure{Why: "compile-panic", Src: c.Src, Mode: m.String(), Got: cg})
			} else if strings.Contains(cg.Err, "memory budget") {
				// what a run needs and what the budget is are facts of the run: a program some run of which the
				// reference admits is not refused for the budget before any run
				for i := range c.Runs {
					if c.Runs[i].Exp.Ok {
						exp := c.Runs[i].Exp
						r.fail(Failure{Why: "refused-at-compile-time", Src: c.Src, Mode: m.String(), Env: c.Runs[i].Env, Budget: c.Runs[i].Budget,
							Exp: &exp, Got: cg})
						break
					}
				}
			} else {
				r.sum.Skipped["compile-rejected"]++
			}
			continue
		}
		r.sum.Programs++
		for i := range c.Runs {
			rc := c.Runs[i]
			e, err := BuildEnv(rc.Env, lg)
			if err != nil {
				r.sum.Infra = append(r.sum.Infra, err.Error())
				continue
			}
			for pass := 0; pass < 2; pass++ {
				restore := setBudget(rc.Budget)
				var g Got
				if pass == 0 {
					g = RunMode(c.Src, prog, m, e, lg)
				} else {
					// the same run on a VM value that has performed every earlier run of the corpus
					g = runOn(r.reused[m.String()], prog, m, e, lg)
				}
				restore()
				r.sum.Executions++
				refused := !g.Ok && strings.Contains(g.Err, "memory budget exceeded")
				why := ""
				// whatever the reference says: a run that completed has not created more collection elements than the budget
				if g.Ok && rc.Budget != nil {
					if n := createdElements(g.raw, prog, envValue(e, m)); n > *rc.Budget {
						r.fail(Failure{Why: "created-more-than-the-budget", Src: c.Src, Mode: m.String(), Env: rc.Env, Budget: rc.Budget, Got: &g,
							Tags: []string{fmt.Sprintf("the result is made of %d collection elements that are neither constants of the program nor part of the environment", n)}})
					}
					r.sum.Stats["successful runs whose created elements were counted"]++
				}
				if m.Optimize {
					// (the reference counts what the unoptimized program creates; a folded constant is not created by the
					// run, so an optimized run may complete where the reference refuses - but optimizing never makes a
					// run need MORE: a refusal of a run the reference admits is a refusal of a run that needs fewer)
					if refused && rc.Exp.Ok {
						exp := rc.Exp
						r.fail(Failure{Why: "optimized-refused-under-budget", Src: c.Src, Mode: m.String(), Env: rc.Env, Budget: rc.Budget,
							Exp: &exp, Got: &g, DevMatch: devMatches(g, rc.Dev, false)})
					}
					continue
				}
				switch {
				case g.Panic != "" || g.Hang:
					why = "panic"
				case g.Ok && !rc.Exp.Ok && rc.Exp.C == "budget":
					why = "completed-over-budget"
				case refused && rc.Exp.Ok:
					why = "refused-under-budget"
				case refused && !rc.Exp.Ok && rc.Exp.C != "budget":
					why = "refused-under-budget"
				case g.Ok != rc.Exp.Ok:
					r.sum.Stats["non-budget-disagreement"]++
				}
				if !rc.Exp.Ok && rc.Exp.C == "budget" {
					r.sum.Stats["reference-refuses"]++
				} else {
					r.sum.Stats["reference-admits"]++
				}
				if why != "" {
					exp := rc.Exp
					if pass == 1 {
						why = "reusedvm-" + why
					}
					r.fail(Failure{Why: why, Src: c.Src, Mode: m.String(), Env: rc.Env, Budget: rc.Budget,
						Exp: &exp, Got: &g, DevMatch: devMatches(g, rc.Dev, false)})
				}
			}
		}
	}
	r.sum.Nontrivial++
	r.sample(c)
}

// cleanExitCase: C05, last clause.  Every successful real run of every case on
// a caller-owned VM must end with nothing left on the evaluation stack (Run has
// popped the result) and no loop scope open; a failed run is not constrained.
func (r *replayer) cleanExitCase(c Case) {
	lg := &Log{}
	for _, m := range r.modes {
		prog, cg := CompileMode(c.Src, m)
		if cg != nil {
			r.sum.Skipped["compile-rejected"]++
			continue
		}
		r.sum.Programs++
		for i := range c.Runs {
			rc := c.Runs[i]
			e, err := BuildEnv(rc.Env, lg)
			if err != nil {
				r.sum.Infra = append(r.sum.Infra, err.Error())
				continue
			}
			own := &vm.VM{}
			g := runOn(own, prog, m, e, lg)
			r.sum.Executions++
			if g.Panic != "" || g.Hang || !g.Ok {
				continue
			}
			if n := len(own.Stack()); n != 0 || own.Scope() != nil {
				r.fail(Failure{Why: "unclean-exit", Src: c.Src, Mode: m.String(), Env: rc.Env, Got: &g,
					Tags: []string{fmt.Sprintf("values left on the stack: %d, scope open: %v", n, own.Scope() != nil)}})
			}
		}
	}
	if c.N >= 3 {
		r.sum.Nontrivial++
	}
	r.sample(c)
}

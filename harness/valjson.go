package main

import "encoding/json"

// MarshalJSON emits exactly the fields of the value's tag (Prim.tla), so that
// TLC's ndJsonDeserialize yields records with the expected domains.
func (v Val) MarshalJSON() ([]byte, error) {
	m := map[string]interface{}{"t": v.T}
	switch v.T {
	case "bool":
		m["b"] = *v.B
	case "int":
		m["k"], m["n"] = v.K, *v.N
	case "flt":
		m["k"], m["m"], m["e"] = v.K, *v.M, *v.E
	case "str", "re":
		m["s"] = *v.S
	case "arr":
		a := v.A
		if a == nil {
			a = []Val{}
		}
		m["et"], m["a"] = v.Et, a
	case "map":
		mk, mv := v.Mk, v.Mv
		if mk == nil {
			mk = []string{}
		}
		if mv == nil {
			mv = []Val{}
		}
		m["vt"], m["mk"], m["mv"] = v.Vt, mk, mv
	case "obj":
		m["ty"], m["f"] = v.Ty, v.F
	case "ptr":
		m["ty"], m["isnil"] = v.Ty, *v.IsNil
		if !*v.IsNil {
			m["to"] = v.To
		}
	case "fn":
		m["name"] = *v.Name
	case "call":
		m["name"], m["size"] = *v.Name, *v.Size
	case "iset", "sset":
		m["ks"] = v.Ks
	case "opq":
		m["id"] = v.ID
	case "err":
		m["c"] = v.C
	}
	return json.Marshal(m)
}

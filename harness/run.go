package main

// Executing one (source, mode, environment) on the real library, under
// recover() and a watchdog, and projecting what happened.

import (
	"fmt"
	"reflect"
	"strings"
	"sync/atomic"
	"time"

	"github.com/antonmedv/expr"
	"github.com/antonmedv/expr/vm"
)

// Mode is one way of compiling: how the environment type is declared and
// which options are given.
type Mode struct {
	Env      string // struct | ptr | map | none | eval
	Optimize bool
	Undef    bool   // AllowUndefinedVariables
	Expect   string // "", bool, int64, float64
	Const    bool   // ConstExpr for the pure functions AnyId, Var, Cat, Id
}

func (m Mode) String() string {
	s := m.Env
	if m.Optimize {
		s += ":opt"
	} else {
		s += ":noopt"
	}
	if m.Undef {
		s += ":undef"
	}
	if m.Expect != "" {
		s += ":as" + m.Expect
	}
	if m.Const {
		s += ":const"
	}
	return s
}

func ParseMode(s string) (Mode, error) {
	parts := strings.Split(s, ":")
	m := Mode{Env: parts[0], Optimize: true}
	for _, p := range parts[1:] {
		switch p {
		case "opt":
			m.Optimize = true
		case "noopt":
			m.Optimize = false
		case "undef":
			m.Undef = true
		case "const":
			m.Const = true
		case "asbool":
			m.Expect = "bool"
		case "asint64":
			m.Expect = "int64"
		case "asfloat64":
			m.Expect = "float64"
		default:
			return m, fmt.Errorf("bad mode part %q", p)
		}
	}
	switch m.Env {
	case "struct", "ptr", "map", "none", "eval", "altmap":
	default:
		return m, fmt.Errorf("bad env kind %q", m.Env)
	}
	return m, nil
}

// Got is the projected result of one real execution.
type Got struct {
	Stage  string    `json:"stage"` // compile | run
	Ok     bool      `json:"ok"`
	V      *Val      `json:"v,omitempty"`
	Err    string    `json:"err,omitempty"`
	Panic  string    `json:"panic,omitempty"` // a panic that crossed the API
	Hang   bool      `json:"hang,omitempty"`
	Calls  []CallRec `json:"calls"`
	GoType string    `json:"gotype,omitempty"`
	rt     reflect.Type
	raw    interface{} // the result itself (identity of what it is made of: C06)
}

const watchdog = 20 * time.Second

type restartSentinel struct{}

// hangSeen: some guarded execution of this process outlived the watchdog (and is still running)
var hangSeen atomic.Bool

// guarded runs f under recover and a watchdog.
func guarded(f func()) (panicMsg string, hang bool) {
	if hangSeen.Load() {
		// an earlier execution of this process is still running away with the processor and the memory: nothing more
		// is executed here; the replay loop hands over to a fresh process (the rest of this case is not executed)
		panic(restartSentinel{})
	}
	done := make(chan string, 1)
	go func() {
		defer func() {
			if r := recover(); r != nil {
				done <- fmt.Sprintf("panic: %v", r)
				return
			}
			done <- ""
		}()
		f()
	}()
	t := time.NewTimer(watchdog)
	defer t.Stop()
	select {
	case msg := <-done:
		return msg, false
	case <-t.C:
		hangSeen.Store(true)
		return "", true
	}
}

func (m Mode) options() []expr.Option {
	var ops []expr.Option
	sample := NewEnv(nil)
	switch m.Env {
	case "struct":
		ops = append(ops, expr.Env(*sample))
	case "ptr":
		ops = append(ops, expr.Env(sample))
	case "map":
		ops = append(ops, expr.Env(sample.AsMap()))
	case "altmap":
		ops = append(ops, expr.Env(sample.AsAltMap()))
	}
	if m.Undef {
		ops = append(ops, expr.AllowUndefinedVariables())
	}
	ops = append(ops, expr.Optimize(m.Optimize))
	if m.Const && m.Env != "none" {
		for _, fn := range []string{"AnyId", "Var", "Cat", "Id"} {
			ops = append(ops, expr.ConstExpr(fn))
		}
	}
	switch m.Expect {
	case "bool":
		ops = append(ops, expr.AsBool())
	case "int64":
		ops = append(ops, expr.AsInt64())
	case "float64":
		ops = append(ops, expr.AsFloat64())
	}
	return ops
}

// CompileMode compiles src in mode m; a nil program with empty error means
// mode "eval" (no separate compile step).
func CompileMode(src string, m Mode, extra ...expr.Option) (prog *vm.Program, g *Got) {
	if m.Env == "eval" {
		return nil, nil
	}
	var err error
	ops := append(m.options(), extra...)
	pmsg, hang := guarded(func() { prog, err = expr.Compile(src, ops...) })
	if pmsg != "" || hang {
		return nil, &Got{Stage: "compile", Panic: pmsg, Hang: hang}
	}
	if err != nil {
		if prog != nil {
			return nil, &Got{Stage: "compile", Panic: "error and program both non-nil"}
		}
		return nil, &Got{Stage: "compile", Err: err.Error()}
	}
	if prog == nil {
		return nil, &Got{Stage: "compile", Panic: "nil program and nil error"}
	}
	return prog, nil
}

// envValue: the run-time environment value for a mode.
func envValue(e *Env, m Mode) interface{} {
	switch m.Env {
	case "ptr":
		return e
	case "map":
		return e.AsMap()
	case "altmap":
		return e.AsAltMap()
	default:
		return *e
	}
}

// RunMode runs a compiled program (or Eval for mode eval) on environment e.
func RunMode(src string, prog *vm.Program, m Mode, e *Env, lg *Log) Got {
	lg.reset()
	var out interface{}
	var err error
	env := envValue(e, m)
	pmsg, hang := guarded(func() {
		if m.Env == "eval" {
			out, err = expr.Eval(src, env)
		} else {
			out, err = expr.Run(prog, env)
		}
	})
	g := Got{Stage: "run"}
	if lg != nil {
		g.Calls = append([]CallRec{}, lg.Calls...)
	}
	if pmsg != "" || hang {
		g.Panic, g.Hang = pmsg, hang
		return g
	}
	if err != nil {
		g.Err = err.Error()
		if out != nil {
			g.Panic = "error and value both non-nil"
		}
		return g
	}
	g.Ok = true
	v := Abs(out)
	g.V = &v
	g.GoType = fmt.Sprintf("%T", out)
	g.rt = reflect.TypeOf(out)
	g.raw = out
	return g
}

package main

// C04: error containment.  Configurations enumerated by Pipeline.tla (every
// sensible combination of environment kind, AllowUndefinedVariables, Optimize,
// result directive, Operator, ConstExpr and Patch options x expression class x
// run-time environment) are instantiated with concrete options, sources and
// environment values; Compile, Eval and Run must return (result, nil) or
// (nil, error) - never panic, never hang, never both or neither.

import (
	"encoding/json"
	"fmt"
	"strings"

	"github.com/antonmedv/expr"
	"github.com/antonmedv/expr/ast"
	"github.com/antonmedv/expr/vm"
)

type PipeCfg struct {
	Env       string `json:"env"`
	Undef     bool   `json:"undef"`
	Opt       bool   `json:"opt"`
	Expect    string `json:"expect"`
	Operator  string `json:"operator"`
	Constexpr string `json:"constexpr"`
	Patch     string `json:"patch"`
	Expr      string `json:"expr"`
	Runenv    string `json:"runenv"`
}

type PipeCase struct {
	Cfg      PipeCfg  `json:"cfg"`
	Designed string   `json:"designed"`
	Hazards  []string `json:"hazards"`
}

var hugeSrc string

func hugeSource() string {
	if hugeSrc == "" {
		var b strings.Builder
		b.WriteString("[")
		for i := 0; i < 70000; i++ {
			if i > 0 {
				b.WriteString(",")
			}
			fmt.Fprintf(&b, "%d", i)
		}
		b.WriteString(", \"x\"]")
		hugeSrc = b.String()
	}
	return hugeSrc
}

func exprPool(class string) []string {
	switch class {
	case "bool":
		return []string{"B and I > 0", "I in Xs", "not B"}
	case "int":
		return []string{"I + 1", "Add(I, 2)", "len(Xs)", "Xs[0]", "1"}
	case "float":
		return []string{"F * 2", "Half(F)"}
	case "string":
		return []string{"S + \"a\"", "O.Name"}
	case "nil":
		return []string{"nil"}
	case "any":
		return []string{"Any", "B ? 1 : nil", "Anys[0]", "MA.k"}
	case "ill":
		return []string{"S + 1", "not I", "Id(S)"}
	case "unknown":
		return []string{"Zq", "O.Zq", "Zq(1)", "Zq + 1"}
	case "syntax":
		return []string{"1 +", "(", "a ? b", "[1,", "a.", "f(,)", "{a:}", "1 2"}
	case "lexical":
		return []string{"@", "\"abc", "1e", "0x", "'\\z'", "a \xff b", "1__x"}
	case "empty":
		return []string{"", " ", "\n"}
	case "boom":
		return []string{"Boom(1)", "I + Boom(I)"}
	case "nilfn":
		return []string{"NilFn(1)"}
	case "closure":
		return []string{"all(Xs, {# > 0})", "map(Xs, {# + I})", "filter(Anys, {# != nil})", "count(Os, {.N > 0})",
			"map(Xs, {nil})", "filter(Xs, {nil})", "all(Anys, {nil})", "map(Xs, {Any})", "map(Xs, {Nil})", "one(Xs, {Zq})"}
	case "plus":
		return []string{"I + I", "I + 1 + J", "F + F", "S + S", "Any + 1"}
	case "constcall":
		return []string{"Id(1)", "Boom(1)", "Id(Id(2)) + 1", "I + Id(3)"}
	case "huge":
		return []string{hugeSource()}
	case "extreme": // magnitudes at the edges of int64 and of the memory budget
		return []string{"0..9223372036854775807", "len(-5000000000000000000..5000000000000000000)", "9223372036854775807 + 1",
			"-9223372036854775808 / -1", "9223372036854775807 % -1", "1 / 0", "1 % 0", "I / 0", "2 ** 100000", "1..0", "0..2000000",
			"I..9223372036854775807", "Xs[9223372036854775807]", "S[-1:]", "Xs[:-9223372036854775808]", "1e999", "99999999999999999999",
			"0x7fffffffffffffff + 0x7fffffffffffffff", "\"a\" matches \"(\"", "S matches \"[\"",
			// patterns that become a literal only when the optimizer folds them: invalid ones fail at run time, never panic
			"S matches (\"(\" + \"a\")", "\"ab\" matches \"[a-\" + \"z\"", "S matches (\"(?=\" + \"a)\")", "S matches (\"^a\" + \"b\")",
			"all(Ss, {# matches (\"(\" + \"a\")})",
			// a pointer to a map where a map is expected
			"S in PM", "\"a\" not in PM", "1 in PM", "len(PM)", "PM.a", "PM[S]"}
	case "sharedtree": // a sub-tree in two slots of its parent, 40 (30) levels deep: under 300 characters
		return []string{strings.Repeat("(", 40) + "a" + strings.Repeat(" ?: 1)", 40), "1" + strings.Repeat(" in 1..2", 30)}
	case "widetext": // several lines, multi-byte runes before the place an error is reported at
		return []string{"S == \"こんにちは世界、こんにちは世界\" ||\nXs[10] > 0", "\"日本語日本語日本語\" +\n1", "\"\U0001F600\U0001F600\U0001F600\" == S ||\n\nBoom(1) > 0",
			"[\"ééééééééé\",\n Zq]", "\"世界世界世界世界\"\n  @", "S == \"é\" ? 1 :\n\t(\"世界\" + 1)"}
	}
	return nil
}

// visitors
type identityVisitor struct{}

func (identityVisitor) Enter(*ast.Node) {}
func (identityVisitor) Exit(*ast.Node)  {}

type leafVisitor struct{ constNode bool }

func (leafVisitor) Enter(*ast.Node) {}
func (v leafVisitor) Exit(n *ast.Node) {
	switch x := (*n).(type) {
	case *ast.IntegerNode:
		if v.constNode {
			ast.Patch(n, &ast.ConstantNode{Value: x.Value + 1})
		} else {
			ast.Patch(n, &ast.IntegerNode{Value: x.Value + 1})
		}
	case *ast.IdentifierNode:
		if x.Value == "Zq" {
			ast.Patch(n, &ast.IntegerNode{Value: 7})
		}
	}
}

type rootVisitor struct{ depth int }

func (v *rootVisitor) Enter(*ast.Node) { v.depth++ }
func (v *rootVisitor) Exit(n *ast.Node) {
	v.depth--
	if v.depth == 0 {
		ast.Patch(n, &ast.IntegerNode{Value: 42})
	}
}

func nilMemberMap(e *Env) map[string]interface{} {
	m := e.AsMap()
	m["Nil"] = nil
	m["Any"] = nil
	return m
}

func (c PipeCfg) options() []expr.Option {
	var ops []expr.Option
	sample := NewEnv(nil)
	if c.Constexpr == "beforeenv" {
		ops = append(ops, expr.ConstExpr("Id"))
	}
	switch c.Env {
	case "struct":
		ops = append(ops, expr.Env(*sample))
	case "ptr":
		ops = append(ops, expr.Env(sample))
	case "map":
		ops = append(ops, expr.Env(sample.AsMap()))
	case "mapnil":
		ops = append(ops, expr.Env(nilMemberMap(sample)))
	}
	if c.Undef {
		ops = append(ops, expr.AllowUndefinedVariables())
	}
	ops = append(ops, expr.Optimize(c.Opt))
	switch c.Expect {
	case "bool":
		ops = append(ops, expr.AsBool())
	case "int64":
		ops = append(ops, expr.AsInt64())
	case "float64":
		ops = append(ops, expr.AsFloat64())
	}
	switch c.Operator {
	case "ok":
		ops = append(ops, expr.Operator("+", "Add"))
	case "missing":
		ops = append(ops, expr.Operator("+", "Nope"))
	case "illshaped":
		ops = append(ops, expr.Operator("+", "IsPos"))
	case "nonfunc":
		ops = append(ops, expr.Operator("+", "I"))
	case "nilmember":
		ops = append(ops, expr.Operator("+", "Nil"))
	}
	switch c.Constexpr {
	case "ok":
		ops = append(ops, expr.ConstExpr("Id"))
	case "missing":
		ops = append(ops, expr.ConstExpr("Nope"))
	case "nonfunc":
		ops = append(ops, expr.ConstExpr("I"))
	case "panicking":
		ops = append(ops, expr.ConstExpr("Boom"))
	case "nilmember":
		ops = append(ops, expr.ConstExpr("Nil"))
	}
	switch c.Patch {
	case "identity":
		ops = append(ops, expr.Patch(identityVisitor{}))
	case "replaceleaf":
		ops = append(ops, expr.Patch(leafVisitor{}))
	case "constnode":
		ops = append(ops, expr.Patch(leafVisitor{constNode: true}))
	case "replaceroot":
		ops = append(ops, expr.Patch(&rootVisitor{}))
	}
	return ops
}

func (c PipeCfg) runEnv() interface{} {
	e := NewEnv(nil)
	e.Xs = []int{1, 2}
	e.Anys = []interface{}{1, nil}
	e.MA = map[string]interface{}{"k": 1}
	switch c.Runenv {
	case "nil":
		return nil
	case "wrongtypes":
		return map[string]interface{}{"I": "str", "J": nil, "Xs": 5, "B": 1, "S": 2.5, "F": "x", "Add": 3, "Id": "f",
			"Any": struct{}{}, "Anys": "zz", "O": 1, "Os": []int{1}, "MA": []int{}, "Half": nil, "Boom": 1, "NilFn": 2}
	case "nilmembers":
		m := map[string]interface{}{}
		for k := range e.AsMap() {
			m[k] = nil
		}
		return m
	}
	switch c.Env {
	case "ptr":
		return e
	case "map":
		return e.AsMap()
	case "mapnil":
		return nilMemberMap(e)
	}
	return *e
}

func (c PipeCfg) String() string {
	b, _ := json.Marshal(c)
	return string(b)
}

func (r *replayer) pipeCase(c PipeCase) {
	for _, src := range exprPool(c.Cfg.Expr) {
		var prog *vm.Program
		var err error
		pmsg, hang := guarded(func() { prog, err = expr.Compile(src, c.Cfg.options()...) })
		r.sum.Executions++
		show := src
		if len(show) > 60 {
			show = show[:60] + "..."
		}
		bad := ""
		switch {
		case pmsg != "":
			bad = "compile-panic"
		case hang:
			bad = "compile-hang"
		case prog != nil && err != nil:
			bad = "compile-program-and-error"
		case prog == nil && err == nil:
			bad = "compile-neither-program-nor-error"
		}
		if bad != "" {
			r.fail(Failure{Why: bad, Src: show, Mode: c.Cfg.String(), Got: &Got{Stage: "compile", Panic: pmsg, Hang: hang},
				DevMatch: c.Hazards, Tags: []string{"class:" + c.Cfg.Expr}})
			continue
		}
		if prog != nil {
			r.sum.Programs++
			var out interface{}
			var rerr error
			env := c.Cfg.runEnv()
			pmsg, hang = guarded(func() { out, rerr = expr.Run(prog, env) })
			r.sum.Executions++
			bad = ""
			switch {
			case pmsg != "":
				bad = "run-panic"
			case hang:
				bad = "run-hang"
			case out != nil && rerr != nil:
				bad = "run-value-and-error"
			}
			if bad != "" {
				r.fail(Failure{Why: bad, Src: show, Mode: c.Cfg.String(), Got: &Got{Stage: "run", Panic: pmsg, Hang: hang},
					DevMatch: c.Hazards, Tags: []string{"class:" + c.Cfg.Expr}})
			}
		}
		// Eval: only the source and the environment value matter
		if c.Cfg.Operator == "none" && c.Cfg.Constexpr == "none" && c.Cfg.Patch == "none" && c.Cfg.Expect == "none" && !c.Cfg.Undef && c.Cfg.Opt {
			var out interface{}
			var eerr error
			env := c.Cfg.runEnv()
			pmsg, hang = guarded(func() { out, eerr = expr.Eval(src, env) })
			r.sum.Executions++
			if pmsg != "" || hang || (out != nil && eerr != nil) {
				r.fail(Failure{Why: "eval-panic-or-hang", Src: show, Mode: c.Cfg.String(), Got: &Got{Stage: "eval", Panic: pmsg, Hang: hang},
					Tags: []string{"class:" + c.Cfg.Expr}})
			}
		}
	}
	r.sum.Nontrivial++
	r.sample(c)
}

// textCase: every text of the lexical families through Parse, Compile and Eval.
func (r *replayer) textCase(c LexCase) {
	text, err := symsToString(c.Src)
	if err != nil {
		r.sum.Infra = append(r.sum.Infra, err.Error())
		return
	}
	r.containment(text, "fam:"+c.Fam)
	if len(c.Src) >= 2 {
		r.sum.Nontrivial++
	}
	r.sample(c)
}

func (r *replayer) containment(text, tag string) {
	show := text
	if len(show) > 80 {
		show = show[:80] + "..."
	}
	tree, perr, g := parseGuarded(text)
	r.sum.Executions++
	if g != nil {
		r.fail(Failure{Why: "parse-panic-or-hang", Src: show, Mode: "parse", Got: g, Tags: []string{tag}})
	} else if (tree == nil) == (perr == nil) {
		r.fail(Failure{Why: "parse-neither-or-both", Src: show, Mode: "parse", Tags: []string{tag}})
	}
	for _, m := range r.modes {
		prog, cg := CompileMode(text, m)
		r.sum.Executions++
		if cg != nil && (cg.Panic != "" || cg.Hang) {
			r.fail(Failure{Why: "compile-panic", Src: show, Mode: m.String(), Got: cg, Tags: []string{tag}})
			continue
		}
		if prog != nil {
			e := NewEnv(&Log{})
			lg := &Log{}
			g := RunMode(text, prog, m, e, lg)
			r.sum.Executions++
			if g.Panic != "" || g.Hang {
				r.fail(Failure{Why: "run-panic", Src: show, Mode: m.String(), Got: &g, Tags: []string{tag}})
			}
		}
	}
	var out interface{}
	var eerr error
	pmsg, hang := guarded(func() { out, eerr = expr.Eval(text, *NewEnv(nil)) })
	r.sum.Executions++
	if pmsg != "" || hang || (out != nil && eerr != nil) {
		r.fail(Failure{Why: "eval-panic-or-hang", Src: show, Mode: "eval", Got: &Got{Stage: "eval", Panic: pmsg, Hang: hang}, Tags: []string{tag}})
	}
}

// faultCase: the ill-typed programs of MC_Err.tla (one typing fault each)
// under the option variants of the modes.
func (r *replayer) faultCase(line []byte) error {
	var c RejectCase
	if err := json.Unmarshal(line, &c); err != nil {
		return err
	}
	for _, text := range c.Texts[:1] {
		r.containment(text, "fault:"+c.Fault)
	}
	r.sum.Nontrivial++
	r.sample(c)
	return nil
}

package main

import "encoding/json"

// DevMap: outcomes predicted under named deviations; TLC prints an empty
// function as [].
type DevMap map[string]Outcome

func (d *DevMap) UnmarshalJSON(b []byte) error {
	if len(b) > 0 && b[0] == '[' {
		*d = DevMap{}
		return nil
	}
	m := map[string]Outcome{}
	if err := json.Unmarshal(b, &m); err != nil {
		return err
	}
	*d = m
	return nil
}

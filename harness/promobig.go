package main

// C14 at full width.  TLC's integers are 32-bit, so for the 32- and 64-bit
// extrema the specification supplies the RULE of a case `A op B` - the kind K
// both operands are converted to (Prim!Higher) - and this file evaluates that
// rule on Go values: integer kinds by math/big with wrapping to K's width,
// float kinds by Go's own float32/float64 arithmetic.  The evaluator is
// validated on every case against the values TLC computed (small magnitudes):
// a difference there is an infrastructure error, not a verdict.

import (
	"fmt"
	"math"
	"math/big"
	"reflect"

	"github.com/antonmedv/expr"
)

type PromoRule struct {
	A    string `json:"a"`
	B    string `json:"b"`
	Op   string `json:"op"`
	K    string `json:"k"`
	KDev string `json:"kdev"`
}

var kindBits = map[string]int{"int8": 8, "int16": 16, "int32": 32, "int64": 64, "int": 64,
	"uint8": 8, "uint16": 16, "uint32": 32, "uint64": 64, "uint": 64}

func isSigned(k string) bool { return k[0] == 'i' }
func isFloatK(k string) bool { return k == "float32" || k == "float64" }

var goKindType = map[string]reflect.Type{"int": reflect.TypeOf(int(0)), "int8": reflect.TypeOf(int8(0)), "int16": reflect.TypeOf(int16(0)),
	"int32": reflect.TypeOf(int32(0)), "int64": reflect.TypeOf(int64(0)), "uint": reflect.TypeOf(uint(0)), "uint8": reflect.TypeOf(uint8(0)),
	"uint16": reflect.TypeOf(uint16(0)), "uint32": reflect.TypeOf(uint32(0)), "uint64": reflect.TypeOf(uint64(0)),
	"float32": reflect.TypeOf(float32(0)), "float64": reflect.TypeOf(float64(0))}

// wrap n into the range of integer kind k (a Go conversion between integer types)
func wrapTo(n *big.Int, k string) *big.Int {
	bits := uint(kindBits[k])
	mod := new(big.Int).Lsh(big.NewInt(1), bits)
	r := new(big.Int).Mod(n, mod)
	if isSigned(k) && r.Cmp(new(big.Int).Lsh(big.NewInt(1), bits-1)) >= 0 {
		r.Sub(r, mod)
	}
	return r
}

// typed Go value of kind k from an integer
func mkInt(k string, n *big.Int) interface{} {
	v := reflect.New(goKindType[k]).Elem()
	if isSigned(k) {
		v.SetInt(wrapTo(n, k).Int64())
	} else {
		v.SetUint(wrapTo(n, k).Uint64())
	}
	return v.Interface()
}

func bigOf(v interface{}) *big.Int {
	rv := reflect.ValueOf(v)
	switch rv.Kind() {
	case reflect.Int, reflect.Int8, reflect.Int16, reflect.Int32, reflect.Int64:
		return big.NewInt(rv.Int())
	default:
		return new(big.Int).SetUint64(rv.Uint())
	}
}

// toF: Go's conversion of a typed number to float kind k
func toF(v interface{}, k string) float64 {
	rv := reflect.ValueOf(v)
	var f float64
	switch rv.Kind() {
	case reflect.Float32, reflect.Float64:
		f = rv.Float()
	case reflect.Int, reflect.Int8, reflect.Int16, reflect.Int32, reflect.Int64:
		f = float64(rv.Int())
		if k == "float32" {
			f = float64(float32(rv.Int()))
		}
	default:
		f = float64(rv.Uint())
		if k == "float32" {
			f = float64(float32(rv.Uint()))
		}
	}
	if k == "float32" {
		f = float64(float32(f))
	}
	return f
}

type ruleOut struct {
	ok  bool
	val interface{}
}

// applyRule: the promotion rule of the property for a op b with operands converted to kind k.
func applyRule(op string, a, b interface{}, k string) ruleOut {
	if op == "**" {
		return ruleOut{true, math.Pow(toF(a, "float64"), toF(b, "float64"))}
	}
	if isFloatK(k) {
		x, y := toF(a, k), toF(b, k)
		var f float64
		switch op {
		case "+":
			f = x + y
		case "-":
			f = x - y
		case "*":
			f = x * y
		case "/":
			f = x / y
		case "%":
			return ruleOut{false, nil}
		case "==":
			return ruleOut{true, x == y}
		case "!=":
			return ruleOut{true, x != y}
		case "<":
			return ruleOut{true, x < y}
		case "<=":
			return ruleOut{true, x <= y}
		case ">":
			return ruleOut{true, x > y}
		case ">=":
			return ruleOut{true, x >= y}
		}
		if k == "float32" {
			return ruleOut{true, float32(f)}
		}
		return ruleOut{true, f}
	}
	x, y := wrapTo(bigOf(a), k), wrapTo(bigOf(b), k)
	switch op {
	case "+":
		return ruleOut{true, mkInt(k, new(big.Int).Add(x, y))}
	case "-":
		return ruleOut{true, mkInt(k, new(big.Int).Sub(x, y))}
	case "*":
		return ruleOut{true, mkInt(k, new(big.Int).Mul(x, y))}
	case "/":
		if y.Sign() == 0 {
			return ruleOut{false, nil}
		}
		return ruleOut{true, mkInt(k, new(big.Int).Quo(x, y))} // truncated toward zero
	case "%":
		if y.Sign() == 0 {
			return ruleOut{false, nil}
		}
		return ruleOut{true, mkInt(k, new(big.Int).Rem(x, y))}
	case "==":
		return ruleOut{true, x.Cmp(y) == 0}
	case "!=":
		return ruleOut{true, x.Cmp(y) != 0}
	case "<":
		return ruleOut{true, x.Cmp(y) < 0}
	case "<=":
		return ruleOut{true, x.Cmp(y) <= 0}
	case ">":
		return ruleOut{true, x.Cmp(y) > 0}
	case ">=":
		return ruleOut{true, x.Cmp(y) >= 0}
	}
	return ruleOut{false, nil}
}

// float32 arithmetic is done in float32
func applyRule32(op string, a, b interface{}) ruleOut {
	x, y := float32(toF(a, "float32")), float32(toF(b, "float32"))
	switch op {
	case "+":
		return ruleOut{true, x + y}
	case "-":
		return ruleOut{true, x - y}
	case "*":
		return ruleOut{true, x * y}
	case "/":
		return ruleOut{true, x / y}
	}
	return applyRule(op, a, b, "float32")
}

func rule(op string, a, b interface{}, k string) ruleOut {
	if k == "float32" && (op == "+" || op == "-" || op == "*" || op == "/") {
		return applyRule32(op, a, b)
	}
	return applyRule(op, a, b, k)
}

func sameGo(x, y interface{}) bool {
	if fx, ok := x.(float64); ok {
		fy, ok2 := y.(float64)
		return ok2 && (fx == fy || (math.IsNaN(fx) && math.IsNaN(fy)))
	}
	if fx, ok := x.(float32); ok {
		fy, ok2 := y.(float32)
		return ok2 && (fx == fy || (fx != fx && fy != fy))
	}
	return reflect.DeepEqual(x, y)
}

func extrema(k string) []interface{} {
	var out []interface{}
	if isFloatK(k) {
		fs := []float64{0, 1.5, -0.5, 3, 16777217, 9007199254740993, 1e30, -9223372036854775808, 18446744073709551615}
		for _, f := range fs {
			if k == "float32" {
				out = append(out, float32(f))
			} else {
				out = append(out, f)
			}
		}
		return out
	}
	bits := uint(kindBits[k])
	one := big.NewInt(1)
	var ns []*big.Int
	if isSigned(k) {
		min := new(big.Int).Neg(new(big.Int).Lsh(one, bits-1))
		max := new(big.Int).Sub(new(big.Int).Lsh(one, bits-1), one)
		ns = []*big.Int{min, new(big.Int).Add(min, one), big.NewInt(-1), big.NewInt(0), big.NewInt(1), big.NewInt(7), new(big.Int).Sub(max, one), max}
	} else {
		max := new(big.Int).Sub(new(big.Int).Lsh(one, bits), one)
		half := new(big.Int).Lsh(one, bits-1)
		ns = []*big.Int{big.NewInt(0), big.NewInt(1), big.NewInt(7), new(big.Int).Sub(half, one), half, new(big.Int).Sub(max, one), max}
	}
	for _, n := range ns {
		out = append(out, mkInt(k, n))
	}
	return out
}

func setMember(e *Env, name string, v interface{}) {
	reflect.ValueOf(e).Elem().FieldByName(name).Set(reflect.ValueOf(v))
}

func memberOf(src string) (string, string) {
	var a, op, b string
	fmt.Sscanf(src, "%s %s %s", &a, &op, &b)
	return a, b
}

// promoBig: extrema of both operand kinds for one `A op B` case.
func (r *replayer) promoBig(c Case, p PromoRule) {
	if p.K == "" || c.N != 3 {
		return
	}
	ma, mb := memberOf(c.Src)
	if ma == "" || mb == "" {
		return
	}
	same := ma == mb // `I op I`: one member, both operands take the same extreme value
	lg := &Log{}
	// validate the evaluator on the values TLC computed
	for _, rc := range c.Runs {
		e, err := BuildEnv(rc.Env, lg)
		if err != nil {
			continue
		}
		ev := reflect.ValueOf(e).Elem()
		a, b := ev.FieldByName(ma).Interface(), ev.FieldByName(mb).Interface()
		ro := rule(p.Op, a, b, p.K)
		if ro.ok != rc.Exp.Ok || (ro.ok && rc.Exp.V != nil && !ObsEq(Abs(ro.val), *rc.Exp.V)) {
			r.sum.Infra = append(r.sum.Infra, fmt.Sprintf("full-width evaluator disagrees with TLC on %s (%v, %v): %v vs %v", c.Src, a, b, ro, toJSON(rc.Exp)))
			return
		}
	}
	for _, m := range r.modes {
		prog, cg := CompileMode(c.Src, m)
		if cg != nil {
			continue
		}
		for _, a := range extrema(p.A) {
			for _, b := range extrema(p.B) {
				if same && !sameGo(a, b) {
					continue
				}
				e := NewEnv(lg)
				setMember(e, ma, a)
				setMember(e, mb, b)
				var out interface{}
				var err error
				pmsg, hang := guarded(func() { out, err = expr.Run(prog, envValue(e, m)) })
				r.sum.Executions++
				r.sum.Stats["full-width runs"]++
				if pmsg != "" || hang {
					continue
				}
				want := rule(p.Op, a, b, p.K)
				good := (err == nil) == want.ok && (err != nil || sameGo(out, want.val))
				if good {
					continue
				}
				var dm []string
				if p.KDev != p.K {
					wd := rule(p.Op, a, b, p.KDev)
					if (err == nil) == wd.ok && (err != nil || sameGo(out, wd.val)) {
						dm = []string{"Dev_RankIntBelowInt8"}
					}
				}
				g := Got{Stage: "run", Ok: err == nil, GoType: fmt.Sprintf("%T", out)}
				if err != nil {
					g.Err = err.Error()
				} else {
					g.Err = fmt.Sprintf("%v", out)
				}
				r.fail(Failure{Why: "full-width-value", Src: c.Src, Mode: m.String(), Got: &g, DevMatch: dm,
					Tags: []string{fmt.Sprintf("%s(%v) %s %s(%v): the rule (operands converted to %s) gives %v (%T), ok=%v", p.A, a, p.Op, p.B, b, p.K, want.val, want.val, want.ok)}})
			}
		}
	}
}

package main

// Drivers that compare real executions with each other as well as with the
// specification: C14 (promotion + checker's kind), C02 (optimizer on/off),
// C15 (declared type / no type / Eval / struct / pointer / map), C18 (laws).

import (
	"reflect"
	"strings"

	"github.com/antonmedv/expr/checker"
	"github.com/antonmedv/expr/conf"
	"github.com/antonmedv/expr/parser"
	"github.com/antonmedv/expr/vm"
)

// checkedKind: the kind the real type checker reports for src against Env.
func checkedKind(src string) (kind string, ok bool) {
	defer func() {
		if r := recover(); r != nil {
			ok = false
		}
	}()
	tree, err := parser.Parse(src)
	if err != nil {
		return "", false
	}
	t, err := checker.Check(tree, conf.New(*NewEnv(nil)))
	if err != nil || t == nil {
		return "", false
	}
	if t.Kind() == reflect.Interface {
		return "any", true
	}
	return t.Kind().String(), true
}

// promoCase: C14.  Value and kind against the promotion rule of the
// specification; the kind of the real result against the real checker.
func (r *replayer) promoCase(c Case) {
	lg := &Log{}
	ck, ckOK := checkedKind(c.Src)
	// the checker predicts a kind only when every operand is statically typed:
	// `Any` is the one dynamically typed member of the numeric families
	if strings.Contains(c.Src, "Any") {
		ckOK = false
	}
	for _, m := range r.modes {
		prog, cg := CompileMode(c.Src, m)
		if cg != nil {
			if c.Cdz && m.Optimize {
				r.sum.Skipped["const-div-zero-rejected"]++
				continue
			}
			r.fail(Failure{Why: "compile", Src: c.Src, Mode: m.String(), Got: cg})
			continue
		}
		r.sum.Programs++
		for i := range c.Runs {
			rc := c.Runs[i]
			e, err := BuildEnv(rc.Env, lg)
			if err != nil {
				r.sum.Infra = append(r.sum.Infra, err.Error())
				continue
			}
			g := RunMode(c.Src, prog, m, e, lg)
			r.sum.Executions++
			if ok, why := conforms(g, rc.Exp, false); !ok {
				exp := rc.Exp
				r.fail(Failure{Why: why, Src: c.Src, Mode: m.String(), Env: rc.Env, Exp: &exp, Got: &g,
					DevMatch: devMatches(g, rc.Dev, false)})
				continue
			}
			if g.Ok && ckOK && m.Env != "none" {
				gk := ""
				switch g.V.T {
				case "int", "flt":
					gk = g.V.K
				case "bool":
					gk = "bool"
				}
				if gk != "" && ck != "any" && gk != ck {
					r.fail(Failure{Why: "kind-vs-checker", Src: c.Src, Mode: m.String(), Env: rc.Env, Got: &g,
						Tags: []string{"checker=" + ck, "run=" + gk}})
				}
				r.sum.Stats["kind-compared-with-checker"]++
			}
		}
	}
	if c.Promo != nil && r.opts["-fullwidth"] == "1" {
		r.promoBig(c, *c.Promo)
	}
	if c.N >= 3 {
		r.sum.Nontrivial++
	}
	r.sample(c)
}

func sameGot(a, b Got) (bool, string) {
	if a.Panic != "" || b.Panic != "" || a.Hang || b.Hang {
		return false, "panic"
	}
	if a.Ok != b.Ok {
		return false, "ok"
	}
	if a.Ok && !ObsEq(*a.V, *b.V) {
		return false, "value"
	}
	return true, ""
}

func shapeEnv(kind string) bool { return kind == "struct" || kind == "ptr" || kind == "map" }

// pairCase: C02 (modes = opt, noopt of one environment kind) and C15 (modes =
// the ways of supplying type information).  strict: both fail or both return
// equal values (C02).  Otherwise (C15): all variants that succeed agree.
func (r *replayer) pairCase(c Case, strict bool) {
	if !strict && !r.probed {
		r.probed = true
		r.layoutProbe()
	}
	lg := &Log{}
	progs := make([]struct {
		m  Mode
		p  *vm.Program
		cg *Got
	}, 0, len(r.modes))
	for _, m := range r.modes {
		p, cg := CompileMode(c.Src, m)
		if cg != nil && (cg.Panic != "" || cg.Hang) {
			// not a variant that succeeds; panics are the subject of C04
			r.sum.Stats["compile-panic (C04's subject)"]++
		}
		progs = append(progs, struct {
			m  Mode
			p  *vm.Program
			cg *Got
		}{m, p, cg})
		if cg == nil {
			r.sum.Programs++
		}
	}
	if strict {
		// the optimizer may reject only a constant integer division or modulo by zero
		for i := range progs {
			for j := range progs {
				a, b := progs[i], progs[j]
				if a.m.Optimize && !b.m.Optimize && a.m.Env == b.m.Env && a.cg != nil && b.cg == nil && a.cg.Panic == "" {
					allFail := len(c.Runs) > 0
					for _, rc := range c.Runs {
						if rc.Exp.Ok {
							allFail = false
						}
					}
					if c.Cdz {
						r.sum.Skipped["const-div-zero-rejected"]++
					} else if a.m.Const && allFail {
						// a constant-expression call whose evaluation fails: the failure moved to compile time
						r.sum.Skipped["failing const call rejected at compile time"]++
					} else {
						r.fail(Failure{Why: "optimizer-rejects", Src: c.Src, Mode: a.m.String(), Mode2: b.m.String(), Got: a.cg})
					}
				}
				if !a.m.Optimize && b.m.Optimize && a.m.Env == b.m.Env && a.cg != nil && b.cg == nil && a.cg.Panic == "" && !c.Cbp {
					r.fail(Failure{Why: "only-optimized-accepted", Src: c.Src, Mode: a.m.String(), Mode2: b.m.String(), Got: a.cg})
				}
			}
		}
	}
	for i := range c.Runs {
		rc := c.Runs[i]
		e, err := BuildEnv(rc.Env, lg)
		if err != nil {
			r.sum.Infra = append(r.sum.Infra, err.Error())
			continue
		}
		var gots []Got
		var ms []Mode
		for _, pr := range progs {
			if pr.cg != nil {
				continue
			}
			restore := setBudget(rc.Budget)
			g := RunMode(c.Src, pr.p, pr.m, e, lg)
			restore()
			r.sum.Executions++
			gots = append(gots, g)
			ms = append(ms, pr.m)
		}
		for a := 0; a < len(gots); a++ {
			for b := a + 1; b < len(gots); b++ {
				ga, gb := gots[a], gots[b]
				if strict && ms[a].Env != ms[b].Env {
					continue // C02 compares optimizer on/off under the same type information
				}
				// C15: among the ways of giving or withholding type information only variants that succeed are compared;
				// a struct, a pointer to it and a map with the same members carry the same information, so there a
				// run that fails in one shape and succeeds in another is a changed result too
				sameInfo := shapeEnv(ms[a].Env) && shapeEnv(ms[b].Env) && ms[a].Optimize == ms[b].Optimize && ms[a].Undef == ms[b].Undef
				if !strict && !sameInfo && (!ga.Ok || !gb.Ok) && ga.Panic == "" && gb.Panic == "" && !ga.Hang && !gb.Hang {
					continue
				}
				if ok, why := sameGot(ga, gb); !ok {
					exp := rc.Exp
					// attribution: which side left the reference, and under which deviation
					var dm []string
					if okA, _ := conforms(ga, rc.Exp, false); okA {
						dm = devMatches(gb, rc.Dev, false)
					} else if okB, _ := conforms(gb, rc.Exp, false); okB {
						dm = devMatches(ga, rc.Dev, false)
					}
					r.fail(Failure{Why: "differ-" + why, Src: c.Src, Mode: ms[a].String(), Mode2: ms[b].String(), Env: rc.Env,
						Budget: rc.Budget, Exp: &exp, Got: &ga, Got2: &gb, DevMatch: dm})
				}
			}
		}
	}
	// C02: the short conditional `c ?: b` (the parser puts ONE node in two places, condition and first branch): a
	// boolean expression under it behaves the same optimized and not, and as the expression itself
	if strict && c.Ty == "bool" && !c.Cdz && !c.Cbp {
		src2 := "(" + c.Src + ") ?: false"
		for _, env := range []string{"struct"} {
			mo, mn := Mode{Env: env, Optimize: true}, Mode{Env: env}
			po, cgo := CompileMode(src2, mo)
			pn, cgn := CompileMode(src2, mn)
			if cgo != nil || cgn != nil {
				if (cgo == nil) != (cgn == nil) {
					g := cgo
					if g == nil {
						g = cgn
					}
					r.fail(Failure{Why: "short-conditional-compiles-one-way", Src: src2, Mode: mo.String(), Mode2: mn.String(), Got: g})
				}
				continue
			}
			for i := range c.Runs {
				rc := c.Runs[i]
				e, err := BuildEnv(rc.Env, lg)
				if err != nil {
					continue
				}
				ga := RunMode(src2, po, mo, e, lg)
				gb := RunMode(src2, pn, mn, e, lg)
				r.sum.Executions += 2
				if ok, why := sameGot(ga, gb); !ok {
					exp := rc.Exp
					r.fail(Failure{Why: "short-conditional-differ-" + why, Src: src2, Mode: mo.String(), Mode2: mn.String(), Env: rc.Env,
						Exp: &exp, Got: &ga, Got2: &gb, DevMatch: devMatches(ga, rc.Dev, false)})
				}
			}
		}
	}
	if c.N >= 3 {
		r.sum.Nontrivial++
	}
	r.sample(c)
}

type LawRun struct {
	Env  EnvAsg  `json:"env"`
	Exp  Outcome `json:"exp"`
	Exp2 Outcome `json:"exp2"`
	Dev  DevMap  `json:"dev,omitempty"`
}

type LawCase struct {
	Law  string   `json:"law"`
	Src  string   `json:"src"`
	Src2 string   `json:"src2"`
	N    int      `json:"n"`
	Runs []LawRun `json:"runs"`
}

// lawCase: C18.  Where the reference semantics evaluates both sides of an
// identity successfully, the real library must evaluate both successfully
// and to equal values.
func (r *replayer) lawCase(c LawCase) {
	lg := &Log{}
	for _, m := range r.modes {
		pa, ca := CompileMode(c.Src, m)
		pb, cb := CompileMode(c.Src2, m)
		if ca != nil || cb != nil {
			r.sum.Skipped["a side is rejected by compile"]++
			continue
		}
		r.sum.Programs += 2
		for i := range c.Runs {
			rc := c.Runs[i]
			if !rc.Exp.Ok || !rc.Exp2.Ok {
				r.sum.Skipped["reference: a side fails"]++
				continue
			}
			e, err := BuildEnv(rc.Env, lg)
			if err != nil {
				r.sum.Infra = append(r.sum.Infra, err.Error())
				continue
			}
			ga := RunMode(c.Src, pa, m, e, lg)
			gb := RunMode(c.Src2, pb, m, e, lg)
			r.sum.Executions += 2
			if ok, why := sameGot(ga, gb); !ok || !ga.Ok {
				if why == "" {
					why = "both-fail"
				}
				exp := rc.Exp
				r.fail(Failure{Why: "law-" + why, Law: c.Law, Src: c.Src, Src2: c.Src2, Mode: m.String(), Env: rc.Env,
					Exp: &exp, Got: &ga, Got2: &gb, DevMatch: devMatches(ga, rc.Dev, false)})
			}
		}
	}
	r.sum.Nontrivial++
	r.sample(c)
}

package main

// Programs: projection of a real vm.Program (raw bytes + projected constants)
// and comparison with the program the specification's compiler emits.

import (
	"reflect"

	"github.com/antonmedv/expr/vm"
)

// Prog is a program in the interchange format: raw bytes and abstract constants.
type Prog struct {
	Code   []int `json:"code"`
	Consts []Val `json:"consts"`
}

type ProgCase struct {
	Src  string `json:"src"`
	Mode string `json:"mode"`
	Prog Prog   `json:"prog"`
}

// OpTable: opcode byte -> name, from the vm package's exported constants.
var OpTable = map[byte]string{
	vm.OpPush: "OpPush", vm.OpPop: "OpPop", vm.OpRot: "OpRot", vm.OpFetch: "OpFetch",
	vm.OpFetchNilSafe: "OpFetchNilSafe", vm.OpFetchMap: "OpFetchMap", vm.OpTrue: "OpTrue", vm.OpFalse: "OpFalse",
	vm.OpNil: "OpNil", vm.OpNegate: "OpNegate", vm.OpNot: "OpNot", vm.OpEqual: "OpEqual", vm.OpEqualInt: "OpEqualInt",
	vm.OpEqualString: "OpEqualString", vm.OpJump: "OpJump", vm.OpJumpIfTrue: "OpJumpIfTrue",
	vm.OpJumpIfFalse: "OpJumpIfFalse", vm.OpJumpBackward: "OpJumpBackward", vm.OpIn: "OpIn", vm.OpLess: "OpLess",
	vm.OpMore: "OpMore", vm.OpLessOrEqual: "OpLessOrEqual", vm.OpMoreOrEqual: "OpMoreOrEqual", vm.OpAdd: "OpAdd",
	vm.OpSubtract: "OpSubtract", vm.OpMultiply: "OpMultiply", vm.OpDivide: "OpDivide", vm.OpModulo: "OpModulo",
	vm.OpExponent: "OpExponent", vm.OpRange: "OpRange", vm.OpMatches: "OpMatches", vm.OpMatchesConst: "OpMatchesConst",
	vm.OpContains: "OpContains", vm.OpStartsWith: "OpStartsWith", vm.OpEndsWith: "OpEndsWith", vm.OpIndex: "OpIndex",
	vm.OpSlice: "OpSlice", vm.OpProperty: "OpProperty", vm.OpPropertyNilSafe: "OpPropertyNilSafe", vm.OpCall: "OpCall",
	vm.OpCallFast: "OpCallFast", vm.OpMethod: "OpMethod", vm.OpMethodNilSafe: "OpMethodNilSafe", vm.OpArray: "OpArray",
	vm.OpMap: "OpMap", vm.OpLen: "OpLen", vm.OpCast: "OpCast", vm.OpStore: "OpStore", vm.OpLoad: "OpLoad",
	vm.OpInc: "OpInc", vm.OpBegin: "OpBegin", vm.OpEnd: "OpEnd",
}

// OpOrder is the opcode numbering the specification assumes (VM!OpNames).
var OpOrder = []string{"OpPush", "OpPop", "OpRot", "OpFetch", "OpFetchNilSafe", "OpFetchMap", "OpTrue", "OpFalse", "OpNil",
	"OpNegate", "OpNot", "OpEqual", "OpEqualInt", "OpEqualString", "OpJump", "OpJumpIfTrue",
	"OpJumpIfFalse", "OpJumpBackward", "OpIn", "OpLess", "OpMore", "OpLessOrEqual", "OpMoreOrEqual",
	"OpAdd", "OpSubtract", "OpMultiply", "OpDivide", "OpModulo", "OpExponent", "OpRange", "OpMatches",
	"OpMatchesConst", "OpContains", "OpStartsWith", "OpEndsWith", "OpIndex", "OpSlice", "OpProperty",
	"OpPropertyNilSafe", "OpCall", "OpCallFast", "OpMethod", "OpMethodNilSafe", "OpArray", "OpMap",
	"OpLen", "OpCast", "OpStore", "OpLoad", "OpInc", "OpBegin", "OpEnd"}

// OpcodesDrifted: the real numbering differs from the one the specification
// assumes (an infrastructure error, not a verdict).
func OpcodesDrifted() bool {
	if len(OpTable) != len(OpOrder) {
		return true
	}
	for i, n := range OpOrder {
		if OpTable[byte(i)] != n {
			return true
		}
	}
	return false
}

// AbsProg projects a real program.
func AbsProg(p *vm.Program) Prog {
	out := Prog{Code: make([]int, len(p.Bytecode)), Consts: make([]Val, len(p.Constants))}
	for i, b := range p.Bytecode {
		out.Code[i] = int(b)
	}
	for i, c := range p.Constants {
		out.Consts[i] = Abs(c)
	}
	return out
}

func strictEq(a, b Val) bool {
	return reflect.DeepEqual(normVal(a), normVal(b))
}

func normVal(v Val) Val {
	if v.A != nil && len(v.A) == 0 {
		v.A = nil
	}
	for i := range v.A {
		v.A[i] = normVal(v.A[i])
	}
	return v
}

// progCase: the real compiler's output against the specification's compiler.
// A difference is model drift (diagnostic), recorded but never a verdict.
func (r *replayer) progCase(c ProgCase) {
	m := Mode{Env: "struct", Optimize: false}
	if c.Mode == "untyped" {
		m.Env = "none"
	}
	prog, cg := CompileMode(c.Src, m)
	r.sum.Executions++
	if cg != nil {
		r.fail(Failure{Why: "compile", Src: c.Src, Mode: m.String(), Got: cg})
		return
	}
	r.sum.Programs++
	real := AbsProg(prog)
	same := len(real.Code) == len(c.Prog.Code) && len(real.Consts) == len(c.Prog.Consts)
	if same {
		for i := range real.Code {
			if real.Code[i] != c.Prog.Code[i] {
				same = false
				break
			}
		}
	}
	if same {
		for i := range real.Consts {
			if !ObsEq(real.Consts[i], c.Prog.Consts[i]) {
				same = false
				break
			}
		}
	}
	if !same {
		r.sum.Stats["program-differs"]++
		g := Got{Stage: "compile"}
		r.fail(Failure{Why: "program-differs", Src: c.Src, Mode: m.String(), Got: &g,
			Tags: []string{"real=" + toJSON(real), "spec=" + toJSON(c.Prog)}})
	} else {
		r.sum.Stats["program-identical"]++
	}
	if len(real.Code) > 6 {
		r.sum.Nontrivial++
	}
	r.sample(c)
}

package main

// C10: the real ast.Walk over the parser's tree of a TLC-generated source must
// produce the event sequence Walk!WalkSeq assigns (every node entered and
// exited once, parents around children, children in source order), and a
// replacement made by a Patch visitor must take effect wherever the replaced
// node sits: compiling src under the visitor behaves as compiling Walk!Patch's
// source.

import (
	"fmt"
	"strings"

	"github.com/antonmedv/expr"
	"github.com/antonmedv/expr/ast"
	"github.com/antonmedv/expr/checker"
	"github.com/antonmedv/expr/conf"
	"github.com/antonmedv/expr/optimizer"
	"github.com/antonmedv/expr/parser"
)

type WalkCase struct {
	Src     string   `json:"src"`
	N       int      `json:"n"`
	Walk    []string `json:"walk"`
	Nodes   int      `json:"nodes"`
	Psrc    string   `json:"psrc"`
	Patched bool     `json:"patched"`
	Cbp     bool     `json:"cbp"`
	Envs    []EnvAsg `json:"envs"`
	OptRoot string   `json:"optroot,omitempty"` // the kind of the root after the optimizer's passes (Optimizer.tla)
}

type walkRec struct {
	events []string
	seen   map[ast.Node]int
}

func kindOf(n ast.Node) string {
	s := fmt.Sprintf("%T", n)
	s = strings.TrimPrefix(s, "*ast.")
	return strings.TrimSuffix(s, "Node")
}

func (w *walkRec) Enter(n *ast.Node) {
	w.events = append(w.events, "+"+kindOf(*n))
	w.seen[*n]++
}
func (w *walkRec) Exit(n *ast.Node) { w.events = append(w.events, "-"+kindOf(*n)) }

// oneToTwo replaces every integer literal 1 by 2 (on Exit, as patchers do).
type oneToTwo struct{}

func (oneToTwo) Enter(*ast.Node) {}
func (oneToTwo) Exit(n *ast.Node) {
	if i, ok := (*n).(*ast.IntegerNode); ok && i.Value == 1 {
		ast.Patch(n, &ast.IntegerNode{Value: 2})
	}
}

func (r *replayer) walkCase(c WalkCase) {
	tree, err := parser.Parse(c.Src)
	if err != nil && c.Cbp {
		r.sum.Skipped["const-bad-pattern-rejected"]++
		return
	}
	if err != nil {
		r.fail(Failure{Why: "parse", Src: c.Src, Mode: "walk", Got: &Got{Stage: "compile", Err: err.Error()}})
		return
	}
	if c.OptRoot != "" && len(c.Walk) == 0 {
		r.optRoot(c)
		return
	}
	w := &walkRec{seen: map[ast.Node]int{}}
	pmsg, hang := guarded(func() { ast.Walk(&tree.Node, w) })
	r.sum.Executions++
	if pmsg != "" || hang {
		r.fail(Failure{Why: "walk-panic", Src: c.Src, Mode: "walk", Got: &Got{Stage: "compile", Panic: pmsg, Hang: hang}})
		return
	}
	same := len(w.events) == len(c.Walk)
	if same {
		for i := range w.events {
			if w.events[i] != c.Walk[i] {
				same = false
				break
			}
		}
	}
	if !same {
		r.fail(Failure{Why: "walk-order", Src: c.Src, Mode: "walk",
			Tags: []string{"spec=" + strings.Join(c.Walk, " "), "real=" + strings.Join(w.events, " ")}})
	}
	for _, k := range w.seen {
		if k != 1 {
			r.fail(Failure{Why: "walk-node-entered-twice", Src: c.Src, Mode: "walk"})
			break
		}
	}
	if c.Patched {
		lg := &Log{}
		for _, m := range r.modes {
			plainBefore, cb := CompileMode(c.Src, m) // the same source, no visitor, before the patching compilation
			pp, cg := CompileMode(c.Src, m, expr.Patch(oneToTwo{}))
			pq, cq := CompileMode(c.Psrc, m)
			// ... and after it: a replacement made in one compilation must not reach another one
			if plainAfter, ca := CompileMode(c.Src, m); cb == nil && ca == nil && !sameProgram(plainBefore, plainAfter) {
				r.fail(Failure{Why: "patch-leaks-into-another-compilation", Src: c.Src, Mode: m.String(),
					Tags: []string{"before=" + toJSON(AbsProg(plainBefore)), "after=" + toJSON(AbsProg(plainAfter))}})
			} else if (cb == nil) != (ca == nil) {
				r.fail(Failure{Why: "patch-leaks-into-another-compilation", Src: c.Src, Mode: m.String()})
			}
			if (cg == nil) != (cq == nil) {
				g := cg
				if g == nil {
					g = cq
				}
				r.fail(Failure{Why: "patch-compile-differs", Src: c.Src, Src2: c.Psrc, Mode: m.String(), Got: g})
				continue
			}
			if cg != nil {
				r.sum.Skipped["both rejected by compile"]++
				continue
			}
			r.sum.Programs += 2
			r.sum.Stats["patched-programs"]++
			for _, asg := range c.Envs {
				e, err := BuildEnv(asg, lg)
				if err != nil {
					r.sum.Infra = append(r.sum.Infra, err.Error())
					continue
				}
				ga := RunMode(c.Src, pp, m, e, lg)
				gb := RunMode(c.Psrc, pq, m, e, lg)
				r.sum.Executions += 2
				if ok, why := sameGot(ga, gb); !ok || !callsEq(ga.Calls, gb.Calls) {
					if why == "" {
						why = "calls"
					}
					r.fail(Failure{Why: "patch-" + why, Src: c.Src, Src2: c.Psrc, Mode: m.String(), Env: asg, Got: &ga, Got2: &gb})
				}
			}
		}
	}
	if c.Nodes >= 3 {
		r.sum.Nontrivial++
	}
	c.Envs = nil
	r.sample(c)
}

func (r *replayer) optRoot(c WalkCase) {
	// the root node replaced by the optimizer's own visitors: the tree after optimizer.Optimize has the
	// root kind the specification of the passes (Optimizer.tla) gives it
	if c.OptRoot != "" {
		if t2, err := parser.Parse(c.Src); err == nil {
			cfg := conf.New(*NewEnv(nil))
			var oerr error
			pmsg, hang := guarded(func() {
				if _, cerr := checker.Check(t2, cfg); cerr != nil {
					oerr = cerr
					return
				}
				oerr = optimizer.Optimize(&t2.Node, cfg)
			})
			r.sum.Executions++
			if pmsg == "" && !hang && oerr == nil {
				got := "?"
				if o, ok := projNode(t2.Node).(obj); ok {
					got, _ = o["k"].(string)
				}
				if got != c.OptRoot {
					r.fail(Failure{Why: "optimizer-root-replacement-lost", Src: c.Src, Mode: "optimize",
						Tags: []string{"the passes yield a root of kind " + c.OptRoot + ", the optimized tree has " + got}})
				}
				r.sum.Stats["optimized roots compared"]++
			}
		}
	}
	r.sum.Nontrivial++
	r.sample(c)
}

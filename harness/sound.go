package main

// C03.  Soundness: a program the checker accepts, all of whose operands are
// statically typed (the specification computes FullyTyped), never fails for a
// type reason - it fails only where the reference semantics fails - and a
// successful result has the dynamic type the checker reported (exactly bool,
// int64, float64 under the result directives).  Rejection: an expression with
// one violation of a documented typing rule is rejected by Compile.

import (
	"encoding/json"
	"fmt"
	"reflect"
	"strings"

	"github.com/antonmedv/expr/checker"
	"github.com/antonmedv/expr/conf"
	"github.com/antonmedv/expr/parser"
)

// checkedType: the type the real checker reports for src against Env.
func checkedType(src string) (t reflect.Type, ok bool) {
	defer func() {
		if r := recover(); r != nil {
			ok = false
		}
	}()
	tree, err := parser.Parse(src)
	if err != nil {
		return nil, false
	}
	t, err = checker.Check(tree, conf.New(*NewEnv(nil)))
	if err != nil {
		return nil, false
	}
	return t, true
}

func numericTy(ty string) bool {
	switch ty {
	case "int", "int8", "int16", "int32", "int64", "uint", "uint8", "uint16", "uint32", "uint64", "float32", "float64":
		return true
	}
	return false
}

func (r *replayer) soundCase(c Case) {
	if !r.probed {
		r.probed = true
		r.historyProbe()
	}
	if !c.Typed {
		r.sum.Skipped["not statically typed"]++
		return
	}
	lg := &Log{}
	ct, ctOK := checkedType(c.Src)
	for _, m := range r.modes {
		if c.Ty == "any" && m.Expect != "" {
			continue // a conditional with branches of different types has no static type for a directive to look at
		}
		// which directive applies to this result type
		switch m.Expect {
		case "bool":
			if c.Ty != "bool" {
				// a non-boolean result under AsBool must be rejected (or the program must still return a bool)
				prog, cg := CompileMode(c.Src, m)
				r.sum.Executions++
				if cg == nil && prog != nil && !c.Cdz && !c.Cbp {
					r.fail(Failure{Why: "asbool-accepts-non-boolean", Src: c.Src, Mode: m.String(), Tags: []string{"static type " + c.Ty}})
				}
				continue
			}
		case "int64", "float64":
			if !numericTy(c.Ty) {
				continue
			}
		}
		prog, cg := CompileMode(c.Src, m)
		if cg != nil {
			if cg.Panic != "" || cg.Hang {
				r.sum.Stats["compile panics (C04's subject)"]++
			} else {
				r.sum.Skipped["well-typed by the reference, rejected by the checker"]++
			}
			continue
		}
		r.sum.Programs++
		for i := range c.Runs {
			rc := c.Runs[i]
			e, err := BuildEnv(rc.Env, lg)
			if err != nil {
				r.sum.Infra = append(r.sum.Infra, err.Error())
				continue
			}
			g := RunMode(c.Src, prog, m, e, lg)
			r.sum.Executions++
			exp := rc.Exp
			if g.Panic != "" || g.Hang {
				r.sum.Stats["run panics (C04's subject)"]++
				continue
			}
			// the expectation under a directive: the Go conversion of the value
			want := exp.V
			wantOK := exp.Ok
			switch m.Expect {
			case "int64":
				want = rc.I64
			case "float64":
				want = rc.F64
			}
			if m.Expect == "int64" || m.Expect == "float64" {
				if exp.Ok && (want == nil || want.T == "nil" || want.T == "err") {
					wantOK = false // a nil or non-numeric value cannot be cast: a value-dependent failure
				}
			}
			if !g.Ok {
				if wantOK {
					r.fail(Failure{Why: "typed-program-fails", Src: c.Src, Mode: m.String(), Env: rc.Env, Exp: &exp, Got: &g,
						DevMatch: devMatches(g, rc.Dev, false)})
				}
				continue
			}
			// success: the dynamic type
			switch m.Expect {
			case "bool", "int64", "float64":
				if g.GoType != m.Expect {
					r.fail(Failure{Why: "directive-result-type", Src: c.Src, Mode: m.String(), Env: rc.Env, Got: &g,
						Tags: append([]string{"want " + m.Expect + " got " + g.GoType}, c.Tags...)})
					continue
				}
				// (the value under a directive follows the promotion rule: C14's subject)
			default:
				if ctOK && ct != nil && ct.Kind() != reflect.Interface {
					ok := true
					nilSafe := false
					for _, t := range c.Tags {
						if t == "nil-safe-step" {
							nilSafe = true
						}
					}
					if g.V.T == "nil" && g.GoType == "<nil>" && nilSafe {
						// nil inhabits the type of a nil-safe chain
						r.sum.Stats["nil result of a nil-safe expression"]++
					} else if g.V.T == "nil" && g.GoType == "<nil>" {
						switch ct.Kind() {
						case reflect.Ptr, reflect.Slice, reflect.Map, reflect.Func, reflect.Interface:
						default:
							ok = false
						}
					} else if g.rt != nil && !g.rt.AssignableTo(ct) {
						ok = false
					}
					if !ok {
						r.fail(Failure{Why: "dynamic-type-differs", Src: c.Src, Mode: m.String(), Env: rc.Env, Got: &g,
							Tags: append([]string{"checker: " + ct.String() + ", run: " + g.GoType}, c.Tags...)})
					}
					r.sum.Stats["dynamic type compared with the checker's"]++
				}
			}
		}
	}
	if c.N >= 3 {
		r.sum.Nontrivial++
	}
	r.sample(c)
}

type RejectCase struct {
	Kind  string   `json:"kind"`
	Fault string   `json:"fault"`
	N     int      `json:"n"`
	Texts []string `json:"texts"`
}

func (r *replayer) rejectCase(line []byte) error {
	var c RejectCase
	if err := json.Unmarshal(line, &c); err != nil {
		return err
	}
	for i, text := range c.Texts {
		for _, m := range r.modes {
			prog, cg := CompileMode(text, m)
			r.sum.Executions++
			if cg != nil && (cg.Panic != "" || cg.Hang) {
				r.sum.Stats["compile panics (C04's subject)"]++
				continue
			}
			if cg == nil && prog != nil {
				r.fail(Failure{Why: "ill-typed-accepted", Src: text, Mode: m.String(), Tags: []string{"fault:" + c.Fault, fmt.Sprintf("text%d", i)}})
			}
		}
	}
	r.sum.Stats["fault: "+c.Fault]++
	r.sum.Nontrivial++
	r.sample(c)
	return nil
}

// acceptedAlikeCase: C02 over the single-fault texts of MC_Err.  Whatever the checker makes of an ill-typed text,
// the optimizer must not change it: the text is accepted with the optimizer on iff it is accepted with it off
// (a constant division by zero apart), and when both programs exist they behave alike on the sample environment.
func (r *replayer) acceptedAlikeCase(line []byte) error {
	var c RejectCase
	if err := json.Unmarshal(line, &c); err != nil {
		return err
	}
	lg := &Log{}
	for i, text := range c.Texts {
		mo, mn := Mode{Env: "struct", Optimize: true}, Mode{Env: "struct"}
		po, cgo := CompileMode(text, mo)
		pn, cgn := CompileMode(text, mn)
		r.sum.Executions += 2
		if (cgo != nil && (cgo.Panic != "" || cgo.Hang)) || (cgn != nil && (cgn.Panic != "" || cgn.Hang)) {
			r.sum.Stats["compile panics (C04's subject)"]++
			continue
		}
		if (cgo == nil) != (cgn == nil) {
			g := cgo
			if g == nil {
				g = cgn
			}
			if cgo != nil && strings.Contains(cgo.Err, "divide by zero") {
				r.sum.Skipped["const-div-zero-rejected"]++
				continue
			}
			r.fail(Failure{Why: "optimizer-changes-acceptance", Src: text, Mode: mo.String(), Mode2: mn.String(), Got: g,
				Tags: []string{"fault:" + c.Fault, fmt.Sprintf("text%d", i)}})
			continue
		}
		if cgo != nil {
			r.sum.Stats["rejected both ways"]++
			continue
		}
		r.sum.Programs += 2
		e := NewEnv(lg)
		e.I, e.J, e.F, e.G, e.S, e.T, e.B = 3, 4, 1.5, 2.25, "a", "b", true
		e.Xs = []int{1, 2, 3}
		ga := RunMode(text, po, mo, e, lg)
		gb := RunMode(text, pn, mn, e, lg)
		r.sum.Executions += 2
		if ok, why := sameGot(ga, gb); !ok {
			r.fail(Failure{Why: "differ-" + why, Src: text, Mode: mo.String(), Mode2: mn.String(), Got: &ga, Got2: &gb,
				Tags: []string{"fault:" + c.Fault, fmt.Sprintf("text%d", i)}})
		}
	}
	r.sum.Nontrivial++
	r.sample(c)
	return nil
}

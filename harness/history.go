package main

// C07: histories emitted by History.tla are replayed on ONE real vm.VM value;
// every run must return what the specification assigns to a fresh machine
// (and what a real fresh VM returns).

import (
	"fmt"
	"strings"

	"github.com/antonmedv/expr/vm"
)

type HRun struct {
	Src string  `json:"src"`
	Env EnvAsg  `json:"env"`
	Exp Outcome `json:"exp"`
	Dev DevMap  `json:"dev,omitempty"`
}

type HCase struct {
	Budget int    `json:"budget"`
	Runs   []HRun `json:"runs"`
}

// runOn runs prog on the given (reused) VM value.
func runOn(v *vm.VM, prog *vm.Program, m Mode, e *Env, lg *Log) Got {
	lg.reset()
	var out interface{}
	var err error
	env := envValue(e, m)
	pmsg, hang := guarded(func() { out, err = v.Run(prog, env) })
	g := Got{Stage: "run"}
	if lg != nil {
		g.Calls = append([]CallRec{}, lg.Calls...)
	}
	if pmsg != "" || hang {
		g.Panic, g.Hang = pmsg, hang
		return g
	}
	if err != nil {
		g.Err = err.Error()
		return g
	}
	g.Ok = true
	val := Abs(out)
	g.V = &val
	g.GoType = fmt.Sprintf("%T", out)
	g.raw = out
	return g
}

func (r *replayer) histCase(c HCase) {
	lg := &Log{}
	b := c.Budget
	restore := setBudget(&b)
	defer restore()
	var srcs []string
	for _, hr := range c.Runs {
		srcs = append(srcs, hr.Src)
	}
	hist := "history=" + strings.Join(srcs, " ; ")
	for _, m := range r.modes {
		progs := map[string]*vm.Program{}
		bad := false
		for _, hr := range c.Runs {
			if _, ok := progs[hr.Src]; ok {
				continue
			}
			p, cg := CompileMode(hr.Src, m)
			if cg != nil {
				r.fail(Failure{Why: "compile", Src: hr.Src, Mode: m.String(), Got: cg})
				bad = true
				break
			}
			progs[hr.Src] = p
		}
		if bad {
			continue
		}
		r.sum.Programs += len(progs)
		reused := &vm.VM{}
		var kept []interface{} // what each run returned, held by the caller until the history ends
		var keptAbs []string
		for k, hr := range c.Runs {
			e, err := BuildEnv(hr.Env, lg)
			if err != nil {
				r.sum.Infra = append(r.sum.Infra, err.Error())
				break
			}
			g, raw := runOnRaw(reused, progs[hr.Src], m, e, lg)
			kept = append(kept, raw)
			keptAbs = append(keptAbs, toJSON(Abs(raw)))
			r.sum.Executions++
			tags := []string{hist, fmt.Sprintf("position=%d", k+1)}
			if ok, why := conforms(g, hr.Exp, true); !ok {
				exp := hr.Exp
				r.fail(Failure{Why: "reused-" + why, Src: hr.Src, Mode: m.String(), Env: hr.Env, Budget: &b,
					Exp: &exp, Got: &g, DevMatch: devMatches(g, hr.Dev, true), Tags: tags})
				continue
			}
			// and what a real fresh VM returns
			f := runOn(&vm.VM{}, progs[hr.Src], m, e, lg)
			if f.Ok != g.Ok || (g.Ok && !ObsEq(*g.V, *f.V)) || !callsEq(g.Calls, f.Calls) {
				r.fail(Failure{Why: "reused-vs-fresh", Src: hr.Src, Mode: m.String(), Env: hr.Env, Budget: &b,
					Got: &g, Got2: &f, Tags: tags})
			}
		}
		// a value returned by an earlier run is the caller's: later runs on the same VM must not change it
		for k := range kept {
			if toJSON(Abs(kept[k])) != keptAbs[k] {
				r.fail(Failure{Why: "earlier-result-changed-by-later-run", Src: c.Runs[k].Src, Mode: m.String(), Env: c.Runs[k].Env, Budget: &b,
					Tags: []string{hist, fmt.Sprintf("position=%d", k+1), "was " + keptAbs[k], "now " + toJSON(Abs(kept[k]))}})
			}
		}
	}
	if len(c.Runs) > 1 {
		r.sum.Nontrivial++
	}
	r.sample(c)
}

// runOnRaw: runOn, also returning the raw value.
func runOnRaw(v *vm.VM, prog *vm.Program, m Mode, e *Env, lg *Log) (Got, interface{}) {
	lg.reset()
	var out interface{}
	var err error
	env := envValue(e, m)
	pmsg, hang := guarded(func() { out, err = v.Run(prog, env) })
	g := Got{Stage: "run"}
	if lg != nil {
		g.Calls = append([]CallRec{}, lg.Calls...)
	}
	if pmsg != "" || hang {
		g.Panic, g.Hang = pmsg, hang
		return g, nil
	}
	if err != nil {
		g.Err = err.Error()
		return g, nil
	}
	g.Ok = true
	val := Abs(out)
	g.V = &val
	g.GoType = fmt.Sprintf("%T", out)
	return g, out
}

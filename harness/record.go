package main

// Direction B: runs of the real VM are recorded through the verif hook (one
// event per executed instruction, after the state change) and written as
// traces that Trace_VM.tla validates against the machine model.

import (
	"bufio"
	"encoding/json"
	"fmt"
	"os"
	"strings"

	"github.com/antonmedv/expr/vm"
)

type Event struct {
	PP     int    `json:"pp"`
	Op     string `json:"op"`
	IP     int    `json:"ip"`
	Depth  int    `json:"depth"`
	Scopes int    `json:"scopes"`
	Memory int    `json:"memory"`
	HasTop bool   `json:"hastop"`
	Top    Val    `json:"top"`
}

type EndEvent struct {
	Ok  bool   `json:"ok"`
	Out Val    `json:"out"`
	Err string `json:"err"`
}

type TraceRun struct {
	Run     int       `json:"run"`
	Src     string    `json:"src"`
	Mode    string    `json:"mode"`
	Prog    Prog      `json:"prog"`
	Env     EnvAsg    `json:"env"`
	Budget  int       `json:"budget"`
	Reuse   bool      `json:"reuse"`   // the VM value was used by the previous run of the trace
	Memory0 int       `json:"memory0"` // allocation counter at entry, as logged by the hook
	Depth0  int       `json:"depth0"`
	Scopes0 int       `json:"scopes0"`
	Events  []Event   `json:"events"`
	End     EndEvent  `json:"end"`
	Calls   []CallRec `json:"calls"`
	PostStk int       `json:"poststack"` // len(VM.Stack()) after Run (caller-owned VM only, else -1)
	PostScp bool      `json:"postscope"` // VM.Scope() != nil after Run
	WfOnly  bool      `json:"wfonly"`    // no run: only the program's well-formedness is to be judged
}

// recorder is a vm.VerifTracer collecting the events of one run.
type recorder struct {
	events  []Event
	memory0 int
	depth0  int
	scopes0 int
	began   bool
	opaque  bool
	limit   int
}

func (r *recorder) Begin(s vm.VerifState) {
	r.began = true
	r.memory0, r.depth0, r.scopes0 = s.Memory, s.Depth, s.Scopes
}

func (r *recorder) Step(s vm.VerifState) {
	if len(r.events) >= r.limit {
		r.opaque = true
		return
	}
	e := Event{PP: s.PP, Op: OpTable[s.Op], IP: s.IP, Depth: s.Depth, Scopes: s.Scopes, Memory: s.Memory, HasTop: s.HasTop}
	if s.HasTop {
		e.Top = Abs(s.Top)
	} else {
		e.Top = Val{T: "nil"}
	}
	r.events = append(r.events, e)
}

var currentTracer vm.VerifTracer

func installHook() {
	vm.VerifHook = func(*vm.VM) vm.VerifTracer { return currentTracer }
}

func progInUniverse(p Prog) bool {
	for _, c := range p.Consts {
		if c.HasOpaque() {
			return false
		}
	}
	return true
}

// traceOne runs prog on env with machine m (nil: a fresh VM per run via expr.Run)
// and returns the recorded run.
func traceOne(id int, src string, mode Mode, prog *vm.Program, e *Env, asg EnvAsg, lg *Log, m *vm.VM, reuse bool, budget int) (TraceRun, bool) {
	rec := &recorder{limit: 4000}
	currentTracer = rec
	lg.reset()
	old := vm.MemoryBudget
	vm.MemoryBudget = budget
	var out interface{}
	var err error
	env := envValue(e, mode)
	if m == nil {
		m = new(vm.VM) // caller-owned, so that Stack() and Scope() can be read afterwards
	}
	pmsg, hang := guarded(func() { out, err = m.Run(prog, env) })
	vm.MemoryBudget = old
	currentTracer = nil
	tr := TraceRun{Run: id, Src: src, Mode: mode.String(), Prog: AbsProg(prog), Env: asg, Budget: budget, Reuse: reuse,
		Memory0: rec.memory0, Depth0: rec.depth0, Scopes0: rec.scopes0, Events: rec.events,
		Calls: append([]CallRec{}, lg.Calls...), PostStk: -1}
	if tr.Events == nil {
		tr.Events = []Event{}
	}
	if tr.Env == nil {
		tr.Env = EnvAsg{}
	}
	if pmsg != "" || hang {
		tr.End = EndEvent{Ok: false, Out: Val{T: "nil"}, Err: "PANIC " + pmsg}
		return tr, false
	}
	if err != nil {
		tr.End = EndEvent{Ok: false, Out: Val{T: "nil"}, Err: err.Error()}
	} else {
		tr.End = EndEvent{Ok: true, Out: Abs(out)}
	}
	if m != nil {
		tr.PostStk = len(m.Stack())
		tr.PostScp = m.Scope() != nil
	}
	usable := rec.began && !rec.opaque && progInUniverse(tr.Prog) && !tr.End.Out.HasOpaque()
	for _, ev := range tr.Events {
		if ev.Top.HasOpaque() {
			usable = false
		}
	}
	for _, c := range tr.Calls {
		for _, a := range c.Args {
			if a.HasOpaque() {
				usable = false
			}
		}
	}
	return tr, usable
}

// runRecord: cases in, traces out.  -every k records every k-th case only.
func runRecord(args []string) (code int) {
	in, out, sumPath, modesArg := "", "", "", "struct:noopt"
	every, maxRuns := 1, 1000000
	wfOnly := false
	for i := 0; i+1 < len(args); i += 2 {
		switch args[i] {
		case "-wfonly": // one line per compiled program, no run
			wfOnly = args[i+1] == "1"
		case "-in":
			in = args[i+1]
		case "-out":
			out = args[i+1]
		case "-sum":
			sumPath = args[i+1]
		case "-modes":
			modesArg = args[i+1]
		case "-every":
			fmt.Sscan(args[i+1], &every)
		case "-max":
			fmt.Sscan(args[i+1], &maxRuns)
		}
	}
	if OpcodesDrifted() {
		fmt.Fprintln(os.Stderr, "opcode numbering differs from VM!OpNames")
		return 2
	}
	installHook()
	var modes []Mode
	for _, s := range strings.Split(modesArg, ",") {
		m, err := ParseMode(s)
		if err != nil {
			fmt.Fprintln(os.Stderr, err)
			return 2
		}
		modes = append(modes, m)
	}
	f, err := os.Open(in)
	if err != nil {
		fmt.Fprintln(os.Stderr, err)
		return 2
	}
	defer f.Close()
	of, err := os.Create(out)
	if err != nil {
		fmt.Fprintln(os.Stderr, err)
		return 2
	}
	defer of.Close()
	w := bufio.NewWriter(of)
	defer w.Flush()
	enc := json.NewEncoder(w)
	sc := bufio.NewScanner(f)
	sc.Buffer(make([]byte, 1<<20), 1<<28)
	lg := &Log{}
	n, runs, skipped, dead, events := 0, 0, 0, 0, 0
	defer func() {
		// a traced run outlived the watchdog (its trace, ending in "PANIC", is in the output): nothing more can be
		// executed in this process; what was recorded so far is validated
		if p := recover(); p != nil {
			if _, ok := p.(restartSentinel); !ok {
				panic(p)
			}
			w.Flush()
			sf, _ := os.Create(sumPath)
			json.NewEncoder(sf).Encode(map[string]int{"cases": n, "runs": runs, "skipped_outside_universe": skipped, "dead_hook_runs": 0,
				"events": events, "stopped_after_hang": 1})
			sf.Close()
			code = 0
		}
	}()
	for sc.Scan() {
		n++
		if n%every != 0 || runs >= maxRuns {
			continue
		}
		var c Case
		if err := json.Unmarshal(sc.Bytes(), &c); err != nil {
			fmt.Fprintln(os.Stderr, err)
			return 2
		}
		for _, m := range modes {
			prog, cg := CompileMode(c.Src, m)
			if cg != nil {
				continue
			}
			if wfOnly {
				ap := AbsProg(prog)
				if !progInUniverse(ap) {
					skipped++
					continue
				}
				runs++
				enc.Encode(TraceRun{Run: runs, Src: c.Src, Mode: m.String(), Prog: ap, Env: EnvAsg{}, Events: []Event{},
					End: EndEvent{Ok: true, Out: Val{T: "nil"}}, Calls: []CallRec{}, PostStk: -1, WfOnly: true})
				continue
			}
			for _, rc := range c.Runs {
				e, err := BuildEnv(rc.Env, lg)
				if err != nil {
					fmt.Fprintln(os.Stderr, err)
					return 2
				}
				budget := vm.MemoryBudget
				if rc.Budget != nil {
					budget = *rc.Budget
				}
				tr, usable := traceOne(runs+1, c.Src, m, prog, e, rc.Env, lg, nil, false, budget)
				if len(prog.Bytecode) > 0 && len(tr.Events) == 0 && tr.End.Ok {
					dead++
				}
				if !usable {
					skipped++
					continue
				}
				runs++
				events += len(tr.Events)
				enc.Encode(tr)
			}
		}
	}
	sum := map[string]int{"cases": n, "runs": runs, "skipped_outside_universe": skipped, "dead_hook_runs": dead, "events": events}
	sf, err := os.Create(sumPath)
	if err != nil {
		fmt.Fprintln(os.Stderr, err)
		return 2
	}
	json.NewEncoder(sf).Encode(sum)
	sf.Close()
	if dead > 0 {
		fmt.Fprintln(os.Stderr, "hooks are dead: traced runs of non-empty programs produced no step events")
		return 2
	}
	return 0
}

package main

// C17 (tables): operator tables enumerated by TLC (OpTable.tla).  A table
// with an entry naming a missing or ill-shaped function must be rejected by
// Compile whatever the expression; with a valid table every occurrence must
// reach the function the specification's resolution designates (call log),
// with the operands in order, and yield what that function returns; an
// occurrence reaching none keeps its built-in meaning (the result compiled
// without any table).

import (
	"encoding/json"
	"fmt"
	"reflect"

	"github.com/antonmedv/expr"
)

type OpEntry struct {
	Op string `json:"op"`
	Fn string `json:"fn"`
}

type OpExpr struct {
	Src string `json:"src"`
	Fn  string `json:"fn"`
}

type OpTableCase struct {
	Entries []OpEntry `json:"entries"`
	Valid   bool      `json:"valid"`
	Exprs   []OpExpr  `json:"exprs"`
}

// tableOptions: the entries as Operator() calls, one per entry or one per run
// of entries of the same operator.
func tableOptions(es []OpEntry, grouped bool) []expr.Option {
	var ops []expr.Option
	for i := 0; i < len(es); {
		j := i + 1
		if grouped {
			for j < len(es) && es[j].Op == es[i].Op {
				j++
			}
		}
		fns := []string{}
		for _, e := range es[i:j] {
			fns = append(fns, e.Fn)
		}
		ops = append(ops, expr.Operator(es[i].Op, fns...))
		i = j
	}
	return ops
}

func opOperands(e *Env, src string) []interface{} {
	switch src {
	case "I + J", "I == J", "I - J":
		return []interface{}{e.I, e.J}
	case "F + G":
		return []interface{}{e.F, e.G}
	case "S + T", "S == T":
		return []interface{}{e.S, e.T}
	case "I + F":
		return []interface{}{e.I, e.F}
	}
	return nil
}

func (r *replayer) opTableCase(c OpTableCase) {
	desc, _ := json.Marshal(c.Entries)
	for _, m := range r.modes {
		for _, grouped := range []bool{false, true} {
			ops := tableOptions(c.Entries, grouped)
			mode := m.String()
			if grouped {
				mode += ":grouped"
			}
			for _, x := range c.Exprs {
				prog, cg := CompileMode(x.Src, m, ops...)
				r.sum.Executions++
				if !c.Valid {
					if cg == nil {
						r.fail(Failure{Why: "bad-operator-mapping-accepted", Src: x.Src, Mode: mode, Tags: []string{string(desc)}})
					} else if cg.Panic != "" || cg.Hang {
						r.sum.Stats["bad-mapping-panics (C04's subject)"]++
					}
					continue
				}
				if cg != nil {
					r.fail(Failure{Why: "valid-operator-mapping-rejected", Src: x.Src, Mode: mode, Got: cg, Tags: []string{string(desc)}})
					continue
				}
				r.sum.Programs++
				lg := &Log{}
				e := NewEnv(lg)
				e.I, e.J, e.F, e.G, e.S, e.T = 3, 4, 1.5, 2.25, "a", "b"
				g := RunMode(x.Src, prog, m, e, lg)
				if g.Panic != "" || g.Hang {
					r.sum.Stats["run panics or hangs (C04's subject)"]++
					continue
				}
				args := opOperands(e, x.Src)
				if x.Fn == "" {
					// built-in meaning: what the same source yields without any table
					if len(g.Calls) != 0 {
						r.fail(Failure{Why: "unmatched-occurrence-calls-a-function", Src: x.Src, Mode: mode, Got: &g, Tags: []string{string(desc)}})
						continue
					}
					p0, cg0 := CompileMode(x.Src, m)
					if cg0 != nil {
						continue
					}
					g0 := RunMode(x.Src, p0, m, e, lg)
					if g.Ok != g0.Ok || (g.Ok && !reflect.DeepEqual(*g.V, *g0.V)) {
						r.fail(Failure{Why: "unmatched-occurrence-loses-builtin-meaning", Src: x.Src, Mode: mode, Got: &g, Tags: []string{string(desc)}})
					}
					continue
				}
				if len(g.Calls) != 1 || g.Calls[0].Fn != x.Fn || len(g.Calls[0].Args) != 2 ||
					!reflect.DeepEqual(g.Calls[0].Args[0], Abs(args[0])) || !reflect.DeepEqual(g.Calls[0].Args[1], Abs(args[1])) {
					r.fail(Failure{Why: "occurrence-reaches-another-function", Src: x.Src, Mode: mode, Got: &g,
						Tags: []string{string(desc), "the table designates " + x.Fn + fmt.Sprintf("(%v, %v)", args[0], args[1])}})
					continue
				}
				// the value is the function's
				var fv reflect.Value
				if x.Fn == "MAdd" {
					fv = reflect.ValueOf(*e).MethodByName(x.Fn)
				} else {
					fv = reflect.ValueOf(*e).FieldByName(x.Fn)
				}
				in := make([]reflect.Value, 2)
				for i, a := range args {
					in[i] = reflect.ValueOf(a)
				}
				want := Abs(fv.Call(in)[0].Interface())
				if !g.Ok || !reflect.DeepEqual(*g.V, want) {
					r.fail(Failure{Why: "value", Src: x.Src, Mode: mode, Got: &g, Tags: []string{string(desc), "the table designates " + x.Fn}})
				}
			}
		}
	}
	r.sum.Nontrivial++
	if c.Valid {
		r.sum.Stats["valid tables"]++
	} else {
		r.sum.Stats["invalid tables"]++
	}
	r.sample(c)
}

package main

// C17 (tables): operator tables enumerated by TLC (OpTable.tla).  A table
// with an entry naming a missing or ill-shaped function must be rejected by
// Compile whatever the expression; with a valid table every occurrence must
// reach the function the specification's resolution designates (call log),
// with the operands in order, and yield what that function returns; an
// occurrence reaching none keeps its built-in meaning (the result compiled
// without any table).

import (
	"encoding/json"
	"reflect"
	"strings"

	"github.com/antonmedv/expr"
)

type OpEntry struct {
	Op string `json:"op"`
	Fn string `json:"fn"`
}

type OpOcc struct {
	Src      string `json:"src"`
	Fn       string `json:"fn"`
	Neg      bool   `json:"neg"`      // the occurrence stands under a negation
	IllTyped bool   `json:"illtyped"` // negation of a non-boolean result: no claim
}

// OpExpr: one occurrence, or several side by side in an array literal.
type OpExpr struct {
	Occs []OpOcc `json:"occs"`
}

func (x OpExpr) Src() string {
	if len(x.Occs) == 1 {
		return x.Occs[0].Src
	}
	parts := make([]string, len(x.Occs))
	for i, o := range x.Occs {
		parts[i] = o.Src
	}
	return "[" + strings.Join(parts, ", ") + "]"
}

type OpTableCase struct {
	Entries []OpEntry `json:"entries"`
	Valid   bool      `json:"valid"`
	Exprs   []OpExpr  `json:"exprs"`
}

// tableOptions: the entries as Operator() calls, one per entry or one per run
// of entries of the same operator.
func tableOptions(es []OpEntry, grouped bool) []expr.Option {
	var ops []expr.Option
	for i := 0; i < len(es); {
		j := i + 1
		if grouped {
			for j < len(es) && es[j].Op == es[i].Op {
				j++
			}
		}
		fns := []string{}
		for _, e := range es[i:j] {
			fns = append(fns, e.Fn)
		}
		ops = append(ops, expr.Operator(es[i].Op, fns...))
		i = j
	}
	return ops
}

func opOperands(e *Env, src string) []interface{} {
	switch src {
	case "I + J", "I == J", "I - J", "not (I == J)", "!(I == J)":
		return []interface{}{e.I, e.J}
	case "F + G":
		return []interface{}{e.F, e.G}
	case "S + T", "S == T", "not (S == T)":
		return []interface{}{e.S, e.T}
	case "I + F":
		return []interface{}{e.I, e.F}
	}
	return nil
}

func (r *replayer) opTableCase(c OpTableCase) {
	desc, _ := json.Marshal(c.Entries)
	for _, m := range r.modes {
		for _, grouped := range []bool{false, true} {
			ops := tableOptions(c.Entries, grouped)
			mode := m.String()
			if grouped {
				mode += ":grouped"
			}
			for _, x := range c.Exprs {
				src := x.Src()
				skip := false
				for _, o := range x.Occs {
					skip = skip || o.IllTyped
				}
				if skip && c.Valid {
					continue
				}
				prog, cg := CompileMode(src, m, ops...)
				r.sum.Executions++
				if !c.Valid {
					if cg == nil {
						r.fail(Failure{Why: "bad-operator-mapping-accepted", Src: src, Mode: mode, Tags: []string{string(desc)}})
					} else if cg.Panic != "" || cg.Hang {
						r.sum.Stats["bad-mapping-panics (C04's subject)"]++
					}
					continue
				}
				if cg != nil {
					r.fail(Failure{Why: "valid-operator-mapping-rejected", Src: src, Mode: mode, Got: cg, Tags: []string{string(desc)}})
					continue
				}
				r.sum.Programs++
				lg := &Log{}
				e := NewEnv(lg)
				e.I, e.J, e.F, e.G, e.S, e.T = 3, 4, 1.5, 2.25, "a", "b"
				g := RunMode(src, prog, m, e, lg)
				if g.Panic != "" || g.Hang {
					r.sum.Stats["run panics or hangs (C04's subject)"]++
					continue
				}
				// what every occurrence must do: call the designated function with its operands in order and yield
				// what it returns, or - reaching none - keep its built-in meaning (its result without any table)
				var wantCalls []CallRec
				var wantVals []Val
				bad := false
				for _, o := range x.Occs {
					args := opOperands(e, o.Src)
					if o.Fn == "" {
						p0, cg0 := CompileMode(o.Src, m)
						if cg0 != nil {
							bad = true
							break
						}
						g0 := RunMode(o.Src, p0, m, e, &Log{})
						if !g0.Ok {
							bad = true
							break
						}
						wantVals = append(wantVals, *g0.V)
						continue
					}
					var fv reflect.Value
					if o.Fn == "MAdd" {
						fv = reflect.ValueOf(*e).MethodByName(o.Fn)
					} else {
						fv = reflect.ValueOf(*e).FieldByName(o.Fn)
					}
					in := make([]reflect.Value, 2)
					for i, a := range args {
						in[i] = reflect.ValueOf(a)
					}
					lg.reset()
					res := fv.Call(in)[0].Interface()
					if o.Neg {
						res = !res.(bool)
					}
					wantVals = append(wantVals, Abs(res))
					wantCalls = append(wantCalls, CallRec{Fn: o.Fn, Args: []Val{Abs(args[0]), Abs(args[1])}})
				}
				if bad {
					r.sum.Stats["occurrences without a built-in meaning (skipped)"]++
					continue
				}
				if !callsEq(g.Calls, wantCalls) {
					wc, _ := json.Marshal(wantCalls)
					r.fail(Failure{Why: "occurrence-reaches-another-function", Src: src, Mode: mode, Got: &g,
						Tags: []string{string(desc), "the table designates the calls " + string(wc)}})
					continue
				}
				var want Val
				if len(x.Occs) == 1 {
					want = wantVals[0]
				} else {
					want = Val{T: "arr", Et: "any", A: wantVals}
				}
				if !g.Ok || !ObsEq(*g.V, want) {
					wv, _ := json.Marshal(want)
					r.fail(Failure{Why: "value", Src: src, Mode: mode, Got: &g, Tags: []string{string(desc), "expected " + string(wv)}})
				}
			}
		}
	}
	r.sum.Nontrivial++
	if c.Valid {
		r.sum.Stats["valid tables"]++
	} else {
		r.sum.Stats["invalid tables"]++
	}
	r.sample(c)
}

// opTableDeterminism: C09 over operator tables.  The same source compiled six times with the same (valid) table,
// the options built anew each time, yields the same program byte for byte and constant for constant.
func (r *replayer) opTableDeterminism(c OpTableCase) {
	if !c.Valid {
		return
	}
	desc, _ := json.Marshal(c.Entries)
	for _, m := range r.modes {
		for _, x := range c.Exprs {
			src := x.Src()
			first, cg := CompileMode(src, m, tableOptions(c.Entries, false)...)
			r.sum.Executions++
			if cg != nil {
				continue
			}
			r.sum.Programs++
			for k := 0; k < 5; k++ {
				p, cg2 := CompileMode(src, m, tableOptions(c.Entries, k%2 == 1)...)
				r.sum.Executions++
				if cg2 != nil || !sameProgram(first, p) {
					r.fail(Failure{Why: "recompile-differs", Src: src, Mode: m.String(), Tags: []string{string(desc)}})
					break
				}
			}
		}
	}
	r.sum.Nontrivial++
	r.sample(c)
}

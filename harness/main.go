package main

import (
	"encoding/json"
	"fmt"
	"os"
)

func main() {
	if len(os.Args) < 2 {
		fmt.Fprintln(os.Stderr, "usage: harness <sig|replay|...> [args]")
		os.Exit(2)
	}
	switch os.Args[1] {
	case "sig":
		json.NewEncoder(os.Stdout).Encode(Signature())
	case "replay":
		os.Exit(runReplay(os.Args[2:]))
	case "record":
		os.Exit(runRecord(os.Args[2:]))
	default:
		fmt.Fprintln(os.Stderr, "unknown command", os.Args[1])
		os.Exit(2)
	}
}

func toJSON(v interface{}) string {
	b, _ := json.Marshal(v)
	return string(b)
}

package main

// C12: texts emitted by TLC from the lexer machine (Lexer.tla) and the lexical
// reference (Lexical.tla) are given to the real lexer and parser.
//
// Structured families (strlit, numlit, layout): the expectation comes from the
// reference - the value a literal denotes, the number a spelling denotes, the
// position of each token's first rune - and any difference is a verdict.
// Unstructured families (all-*): the expectation is the outcome of the lexer
// machine; a different token location with the same kinds and values is a
// verdict (TokenLocInv holds on the machine), anything else is recorded as
// model drift.

import (
	"encoding/json"
	"fmt"
	"math"
	"math/big"
	"math/rand"
	"os"
	"strconv"
	"strings"

	"github.com/antonmedv/expr/ast"
	"github.com/antonmedv/expr/file"
	"github.com/antonmedv/expr/parser/lexer"
)

var symBytes = map[string]string{
	"<LF>": "\n", "<CR>": "\r", "<TAB>": "\t", "<BEL>": "\a", "<NUL>": "\x00", "<DEL>": "\x7f", "<BS>": "\b",
	"<FF>": "\f", "<VT>": "\v", "<NBSP>": "\u00a0", "<E9>": "é", "<U4E16>": "世", "<U1F600>": "\U0001F600",
	"<XFF>": "\xff",
}

func symsToString(syms []string) (string, error) {
	var b strings.Builder
	for _, s := range syms {
		if len(s) == 1 {
			b.WriteString(s)
		} else if x, ok := symBytes[s]; ok {
			b.WriteString(x)
		} else {
			return "", fmt.Errorf("unknown symbol %q", s)
		}
	}
	return b.String(), nil
}

type LexTok struct {
	K    string   `json:"k"`
	V    []string `json:"v"`
	Line int      `json:"line"`
	Col  int      `json:"col"`
}

type LexOut struct {
	Ok   bool     `json:"ok"`
	Toks []LexTok `json:"toks,omitempty"`
	Err  string   `json:"err,omitempty"`
	Line int      `json:"line,omitempty"`
	Col  int      `json:"col,omitempty"`
}

type LexMeta struct {
	Kind   string   `json:"kind"`
	V      []string `json:"v,omitempty"`
	Q      string   `json:"q,omitempty"`
	Style  string   `json:"style,omitempty"`
	Class  string   `json:"class,omitempty"`
	Base   int      `json:"base,omitempty"`
	Digits []string `json:"digits,omitempty"`
	N      *int64   `json:"n,omitempty"`
	Mant   []string `json:"mant,omitempty"`
	Exp10  int      `json:"exp10,omitempty"`
	Toks   []LexTok `json:"toks,omitempty"`
	Prefix string   `json:"prefix,omitempty"`
	Upper  string   `json:"upper,omitempty"`
	Group  int      `json:"group,omitempty"`
	Fmt    string   `json:"fmt,omitempty"`
}

type LexCase struct {
	Fam  string   `json:"fam"`
	Src  []string `json:"src"`
	Out  LexOut   `json:"out"`
	Meta LexMeta  `json:"meta"`
}

type realTok struct {
	Kind, Value string
	Line, Col   int
}

func lexGuarded(text string) (toks []realTok, err error, g *Got) {
	var raw []lexer.Token
	pmsg, hang := guarded(func() { raw, err = lexer.Lex(file.NewSource(text)) })
	if pmsg != "" || hang {
		return nil, nil, &Got{Stage: "lex", Panic: pmsg, Hang: hang}
	}
	for _, t := range raw {
		toks = append(toks, realTok{string(t.Kind), t.Value, t.Line, t.Column})
	}
	return toks, err, nil
}

func showToks(ts []realTok) string {
	b, _ := json.Marshal(ts)
	return string(b)
}

// expectToks compares real tokens (without the final EOF) with expected ones.
func (r *replayer) expectToks(c LexCase, text string, want []LexTok) {
	toks, err, g := lexGuarded(text)
	r.sum.Executions++
	if g != nil {
		r.sum.Stats["lexer panics or hangs (C04's subject)"]++
		return
	}
	if err != nil {
		r.fail(Failure{Why: "valid-text-rejected", Src: text, Mode: c.Fam, Got: &Got{Stage: "lex", Err: err.Error()}})
		return
	}
	if len(toks) == 0 || toks[len(toks)-1].Kind != "EOF" {
		r.fail(Failure{Why: "no-eof-token", Src: text, Mode: c.Fam, Got: &Got{Stage: "lex", Err: showToks(toks)}})
		return
	}
	toks = toks[:len(toks)-1]
	if len(toks) != len(want) {
		r.fail(Failure{Why: "token-count", Src: text, Mode: c.Fam, Got: &Got{Stage: "lex", Err: showToks(toks)}})
		return
	}
	for i, w := range want {
		wv, e := symsToString(w.V)
		if e != nil {
			r.sum.Infra = append(r.sum.Infra, e.Error())
			return
		}
		t := toks[i]
		switch {
		case t.Kind != w.K:
			r.fail(Failure{Why: "token-kind", Src: text, Mode: c.Fam, Got: &Got{Stage: "lex", Err: showToks(toks)}, Tags: []string{fmt.Sprintf("token %d: want kind %s", i, w.K)}})
			return
		case t.Value != wv:
			r.fail(Failure{Why: "token-value", Src: text, Mode: c.Fam, Got: &Got{Stage: "lex", Err: showToks(toks)}, Tags: []string{fmt.Sprintf("token %d: want value %q", i, wv)}})
			return
		case t.Line != w.Line || t.Col != w.Col:
			r.fail(Failure{Why: "token-position", Src: text, Mode: c.Fam, Got: &Got{Stage: "lex", Err: showToks(toks)}, Tags: []string{fmt.Sprintf("token %d: want %d:%d got %d:%d", i, w.Line, w.Col, t.Line, t.Col)}})
			return
		}
	}
}

func pow10Rat(e int) *big.Rat {
	ten := big.NewInt(10)
	n := new(big.Int).Exp(ten, big.NewInt(int64(abs(e))), nil)
	if e >= 0 {
		return new(big.Rat).SetInt(n)
	}
	return new(big.Rat).SetFrac(big.NewInt(1), n)
}

func abs(x int) int {
	if x < 0 {
		return -x
	}
	return x
}

func (r *replayer) lexCase(c LexCase) {
	text, err := symsToString(c.Src)
	if err != nil {
		r.sum.Infra = append(r.sum.Infra, err.Error())
		return
	}
	r.sum.Stats["family "+c.Fam]++
	switch c.Meta.Kind {
	case "str":
		val, _ := symsToString(c.Meta.V)
		r.expectToks(c, text, []LexTok{{K: "String", V: c.Meta.V, Line: 1, Col: 0}})
		tree, perr, g := parseGuarded(text)
		r.sum.Executions++
		if g == nil {
			if perr != nil {
				r.fail(Failure{Why: "string-literal-rejected", Src: text, Mode: c.Fam, Got: &Got{Stage: "parse", Err: perr.Error()}})
			} else if s, ok := tree.Node.(*ast.StringNode); !ok || s.Value != val {
				r.fail(Failure{Why: "string-literal-value", Src: text, Mode: c.Fam, Got: &Got{Stage: "parse", Err: fmt.Sprintf("%#v", tree.Node)},
					Tags: []string{fmt.Sprintf("want %q", val)}})
			}
		}
		if len(c.Meta.V) > 0 {
			r.sum.Nontrivial++
		}
	case "num":
		r.expectToks(c, text, []LexTok{{K: "Number", V: c.Src, Line: 1, Col: 0}})
		tree, perr, g := parseGuarded(text)
		r.sum.Executions++
		if g != nil {
			break
		}
		if perr != nil {
			r.fail(Failure{Why: "number-rejected", Src: text, Mode: c.Fam, Got: &Got{Stage: "parse", Err: perr.Error()},
				Tags: []string{"class=" + c.Meta.Class}})
			break
		}
		if c.Meta.Class == "int" {
			digits, _ := symsToString(c.Meta.Digits)
			want, ok := new(big.Int).SetString(digits, c.Meta.Base)
			if !ok || !want.IsInt64() {
				r.sum.Infra = append(r.sum.Infra, "bad canonical digits "+digits)
				break
			}
			if c.Meta.N != nil && *c.Meta.N != want.Int64() {
				r.sum.Infra = append(r.sum.Infra, fmt.Sprintf("TLC value %d != %s for %s", *c.Meta.N, want, text))
				break
			}
			if n, ok := tree.Node.(*ast.IntegerNode); !ok || int64(n.Value) != want.Int64() {
				r.fail(Failure{Why: "integer-literal-value", Src: text, Mode: c.Fam, Got: &Got{Stage: "parse", Err: fmt.Sprintf("%#v", tree.Node)},
					Tags: []string{"want " + want.String()}})
			}
		} else {
			mant, _ := symsToString(c.Meta.Mant)
			m, ok := new(big.Int).SetString(mant, 10)
			if !ok {
				r.sum.Infra = append(r.sum.Infra, "bad mantissa "+mant)
				break
			}
			want, _ := new(big.Rat).Mul(new(big.Rat).SetInt(m), pow10Rat(c.Meta.Exp10)).Float64()
			if f, ok := tree.Node.(*ast.FloatNode); !ok || f.Value != want {
				r.fail(Failure{Why: "float-literal-value", Src: text, Mode: c.Fam, Got: &Got{Stage: "parse", Err: fmt.Sprintf("%#v", tree.Node)},
					Tags: []string{fmt.Sprintf("want %v", want)}})
			}
		}
		r.sum.Nontrivial++
	case "layout":
		r.expectToks(c, text, c.Meta.Toks)
		r.sum.Nontrivial++
	case "scheme":
		r.schemeCase(c)
	default:
		// the machine's outcome
		toks, lerr, g := lexGuarded(text)
		r.sum.Executions++
		if g != nil {
			r.sum.Stats["lexer panics or hangs (C04's subject)"]++
			break
		}
		// (family numsuffix - where a number literal ends - is small and the machine is exact on it: there a
		// difference in acceptance, kinds or values is a verdict; elsewhere it is counted as drift of the model)
		strictFam := c.Fam == "numsuffix"
		if (lerr == nil) != c.Out.Ok {
			if strictFam {
				msg := "accepted"
				if lerr != nil {
					msg = lerr.Error()
				}
				r.fail(Failure{Why: "text-accepted-differently", Src: text, Mode: c.Fam, Got: &Got{Stage: "lex", Err: msg}})
				break
			}
			r.sum.Stats["drift: machine and lexer disagree on acceptance"]++
			break
		}
		if lerr != nil {
			r.sum.Stats["rejected by both"]++
			if fe, ok := lerr.(*file.Error); ok && (fe.Line != c.Out.Line || fe.Column != c.Out.Col) {
				r.sum.Stats["drift: error position"]++
			}
			break
		}
		same := len(toks) == len(c.Out.Toks)
		for i := 0; same && i < len(toks); i++ {
			wv, _ := symsToString(c.Out.Toks[i].V)
			if toks[i].Kind != c.Out.Toks[i].K || (toks[i].Kind != "EOF" && toks[i].Value != wv) {
				same = false
			}
		}
		if !same {
			if strictFam {
				r.fail(Failure{Why: "token-kinds-or-values", Src: text, Mode: c.Fam, Got: &Got{Stage: "lex", Err: showToks(toks)}})
				break
			}
			r.sum.Stats["drift: token kinds or values"]++
			break
		}
		for i := range toks {
			w := c.Out.Toks[i]
			if toks[i].Kind != "EOF" && (toks[i].Line != w.Line || toks[i].Col != w.Col) {
				r.fail(Failure{Why: "token-position", Src: text, Mode: c.Fam, Got: &Got{Stage: "lex", Err: showToks(toks)},
					Tags: []string{fmt.Sprintf("token %d: want %d:%d got %d:%d", i, w.Line, w.Col, toks[i].Line, toks[i].Col)}})
				break
			}
			if toks[i].Kind == "EOF" && (toks[i].Line != w.Line || toks[i].Col != w.Col) {
				r.sum.Stats["drift: end-of-input position"]++
			}
		}
		if len(c.Src) >= 2 {
			r.sum.Nontrivial++
		}
	}
	if len(r.sum.Samples) < r.maxSamp {
		r.sample(c)
	}
}

// group inserts "_" every n digits counted from the right.
func groupDigits(d string, n int) string {
	if n <= 0 || len(d) <= n {
		return d
	}
	var parts []string
	for len(d) > n {
		parts = append([]string{d[len(d)-n:]}, parts...)
		d = d[:len(d)-n]
	}
	parts = append([]string{d}, parts...)
	return strings.Join(parts, "_")
}

// schemeCase: magnitudes TLC cannot hold.  The scheme (class, base, prefix,
// case, separators, float format) comes from the specification; the values are
// extrema and seeded random ones; the expected value is the value drawn.
func (r *replayer) schemeCase(c LexCase) {
	m := c.Meta
	seed := int64(1)
	fmt.Sscan(os.Getenv("VERIF_SEED"), &seed)
	rng := rand.New(rand.NewSource(seed*7919 + int64(len(m.Prefix)) + int64(m.Group)))
	if m.Class == "int" {
		vals := []uint64{0, 1, 9, 10, 255, 1<<31 - 1, 1 << 31, 1<<32 - 1, 1 << 32, 1<<53 + 1, 1<<63 - 1, 1000000000000000000,
			0xe, 0xeeee, 0x1e1e1e1e, 0xeeeeeeeeeeeeee, 0xbeef, 0xfeedface, 0x7fffffffffffffff, 0xabcdef, 0xe0e0e0}
		for i := 0; i < 400; i++ {
			vals = append(vals, rng.Uint64()>>(1+uint(rng.Intn(62))))
		}
		for _, v := range vals {
			d := strconv.FormatUint(v, m.Base)
			switch m.Upper {
			case "upper":
				d = strings.ToUpper(d)
			case "mixed":
				b := []byte(d)
				for i := range b {
					if i%2 == 0 {
						b[i] = strings.ToUpper(string(b[i]))[0]
					}
				}
				d = string(b)
			}
			text := m.Prefix + groupDigits(d, m.Group)
			tree, perr, g := parseGuarded(text)
			r.sum.Executions++
			if g != nil {
				continue
			}
			if perr != nil {
				r.fail(Failure{Why: "number-rejected", Src: text, Mode: c.Fam, Got: &Got{Stage: "parse", Err: perr.Error()}, Tags: []string{"class=int"}})
				continue
			}
			if n, ok := tree.Node.(*ast.IntegerNode); !ok || uint64(n.Value) != v {
				r.fail(Failure{Why: "integer-literal-value", Src: text, Mode: c.Fam, Got: &Got{Stage: "parse", Err: fmt.Sprintf("%#v", tree.Node)},
					Tags: []string{fmt.Sprintf("want %d", v)}})
			}
		}
	} else {
		vals := []float64{0, 1, 0.1, 0.5, 1.5, 1e22, 1e23, 123456789.125, math.MaxFloat64, math.SmallestNonzeroFloat64, 1e-320,
			2.2250738585072014e-308, 9007199254740993, 1 << 62, 3.141592653589793, 1e308, 5e-324, 0.000001, 1e21, 1e20}
		for i := 0; i < 400; i++ {
			f := math.Float64frombits(rng.Uint64() >> 1)
			if !math.IsNaN(f) && !math.IsInf(f, 0) {
				vals = append(vals, f)
			}
		}
		for _, v := range vals {
			text := strconv.FormatFloat(v, m.Fmt[0], -1, 64)
			if !strings.ContainsAny(text, ".eE") {
				text += ".0" // a float spelling needs a point or an exponent
			}
			tree, perr, g := parseGuarded(text)
			r.sum.Executions++
			if g != nil {
				continue
			}
			if perr != nil {
				r.fail(Failure{Why: "number-rejected", Src: text, Mode: c.Fam, Got: &Got{Stage: "parse", Err: perr.Error()}, Tags: []string{"class=float"}})
				continue
			}
			if n, ok := tree.Node.(*ast.FloatNode); !ok || n.Value != v {
				r.fail(Failure{Why: "float-literal-value", Src: text, Mode: c.Fam, Got: &Got{Stage: "parse", Err: fmt.Sprintf("%#v", tree.Node)},
					Tags: []string{fmt.Sprintf("want %v", v)}})
			}
		}
	}
	r.sum.Nontrivial++
}

package main

// Direction A: cases emitted by TLC (one JSON object per line) are executed on
// the real library and compared with the outcome the specification assigns.

import (
	"bufio"
	"encoding/json"
	"fmt"
	"io"
	"os"
	"strings"

	"github.com/antonmedv/expr"
	"github.com/antonmedv/expr/ast"
	"github.com/antonmedv/expr/vm"
)

// Outcome is what the specification says one evaluation yields.
type Outcome struct {
	Ok    bool      `json:"ok"`
	V     *Val      `json:"v,omitempty"`
	C     string    `json:"c,omitempty"`
	Calls []CallRec `json:"calls"`
	Need  int       `json:"need"`
}

// EnvAsg is an environment assignment; TLC prints the empty one as [].
type EnvAsg map[string]Val

func (e *EnvAsg) UnmarshalJSON(b []byte) error {
	if len(b) > 0 && b[0] == '[' {
		*e = EnvAsg{}
		return nil
	}
	m := map[string]Val{}
	if err := json.Unmarshal(b, &m); err != nil {
		return err
	}
	*e = m
	return nil
}

type RunCase struct {
	Env    EnvAsg  `json:"env"`
	Exp    Outcome `json:"exp"`
	Dev    DevMap  `json:"dev,omitempty"`
	Budget *int    `json:"budget,omitempty"`
	I64    *Val    `json:"i64,omitempty"` // C03: the value under AsInt64
	F64    *Val    `json:"f64,omitempty"` // C03: the value under AsFloat64
}

type Case struct {
	Src  string    `json:"src"`
	Ty   string    `json:"ty,omitempty"`
	N    int       `json:"n,omitempty"`
	Cdz  bool      `json:"cdz,omitempty"` // contains a constant integer division/modulo by zero
	Cbp  bool      `json:"cbp,omitempty"` // contains a pattern literal that is not a regular expression
	Tags []string  `json:"tags,omitempty"`
	Runs []RunCase `json:"runs"`
	// C18 / C17 / C02 style: a second source that must agree with the first
	Src2  string     `json:"src2,omitempty"`
	Law   string     `json:"law,omitempty"`
	Typed bool       `json:"typed,omitempty"` // C03: every operand is statically typed
	Alt   bool       `json:"alt,omitempty"`   // C17: compile against the alternative environment (Add takes float64)
	Promo *PromoRule `json:"promo,omitempty"` // C14: the conversion rule of `A op B`
	Table bool       `json:"table,omitempty"` // C17: the operator is mapped to two candidates (Add, AddAny)
}

// Failure is one real execution that contradicts the specification.
type Failure struct {
	Prop     string   `json:"prop"`
	Why      string   `json:"why"`
	Src      string   `json:"src"`
	Src2     string   `json:"src2,omitempty"`
	Law      string   `json:"law,omitempty"`
	Mode     string   `json:"mode"`
	Mode2    string   `json:"mode2,omitempty"`
	Env      EnvAsg   `json:"env,omitempty"`
	Budget   *int     `json:"budget,omitempty"`
	Exp      *Outcome `json:"exp,omitempty"`
	Got      *Got     `json:"got,omitempty"`
	Got2     *Got     `json:"got2,omitempty"`
	DevMatch []string `json:"devmatch,omitempty"`
	Tags     []string `json:"tags,omitempty"`
}

type Summary struct {
	Prop       string            `json:"prop"`
	Cases      int               `json:"cases"`
	Executions int               `json:"executions"`
	Programs   int               `json:"programs"`
	Failures   int               `json:"failures"`
	Skipped    map[string]int    `json:"skipped"`
	Stats      map[string]int    `json:"stats"`
	Samples    []json.RawMessage `json:"samples"`
	Nontrivial int               `json:"nontrivial"`
	Infra      []string          `json:"infra,omitempty"`
	RestartAt  int               `json:"restart_at,omitempty"` // the case after which this process gave up (a hang leaves a runaway goroutine behind)
}

func callsEq(a, b []CallRec) bool {
	if len(a) != len(b) {
		return false
	}
	for i := range a {
		if a[i].Fn != b[i].Fn || len(a[i].Args) != len(b[i].Args) {
			return false
		}
		for j := range a[i].Args {
			if !ObsEq(a[i].Args[j], b[i].Args[j]) {
				return false
			}
		}
	}
	return true
}

// conforms: does a real execution agree with a specified outcome?
// Compared: success/failure, the value under ObsEq, the call log.
func conforms(g Got, o Outcome, withCalls bool) (bool, string) {
	if g.Panic != "" {
		return false, "panic"
	}
	if g.Hang {
		return false, "hang"
	}
	if g.Ok != o.Ok {
		return false, "ok"
	}
	if g.Ok && !ObsEq(*g.V, *o.V) {
		return false, "value"
	}
	if withCalls && !callsEq(g.Calls, o.Calls) {
		return false, "calls"
	}
	return true, ""
}

func devMatches(g Got, devs map[string]Outcome, withCalls bool) []string {
	var out []string
	for name, o := range devs {
		if ok, _ := conforms(g, o, withCalls); ok {
			out = append(out, name)
		}
	}
	return out
}

type replayer struct {
	prop     string
	modes    []Mode
	sum      Summary
	failOut  *json.Encoder
	maxSamp  int
	seenProg map[string]bool
	extra    []expr.Option // options added to every compile (C17: the operator mapping)
	reused   map[string]*vm.VM
	opts     map[string]string // driver-specific flags
	ocSeen   int
	probed   bool
}

func (r *replayer) fail(f Failure) {
	f.Prop = r.prop
	r.sum.Failures++
	r.failOut.Encode(f)
}

func (r *replayer) sample(c interface{}) {
	if len(r.sum.Samples) < r.maxSamp {
		b, _ := json.Marshal(c)
		r.sum.Samples = append(r.sum.Samples, b)
	}
}

func setBudget(b *int) func() {
	old := vm.MemoryBudget
	if b != nil {
		vm.MemoryBudget = *b
	}
	return func() { vm.MemoryBudget = old }
}

// evalCase: C01-style conformance of every mode with the expected outcome.
// zqFixer: a Patch visitor that repairs the unknown name Zq (replaces it by the integer 1).
type zqFixer struct{}

func (*zqFixer) Enter(*ast.Node) {}
func (*zqFixer) Exit(n *ast.Node) {
	if id, ok := (*n).(*ast.IdentifierNode); ok && id.Value == "Zq" {
		ast.Patch(n, &ast.IntegerNode{Value: 1})
	}
}

func (r *replayer) evalCase(c Case) {
	lg := &Log{}
	nontrivial := false
	for _, m := range r.modes {
		if c.Alt != (m.Env == "altmap") {
			continue
		}
		extra := r.extra
		if c.Table {
			extra = []expr.Option{expr.Operator("+", "Add", "AddAny")}
		}
		prog, cg := CompileMode(c.Src, m, extra...)
		if cg != nil {
			if cg.Panic != "" || cg.Hang {
				r.fail(Failure{Why: "compile-panic", Src: c.Src, Mode: m.String(), Got: cg, Tags: c.Tags})
				continue
			}
			if c.Cdz && m.Optimize {
				r.sum.Skipped["const-div-zero-rejected"]++
				continue
			}
			if c.Cbp {
				r.sum.Skipped["const-bad-pattern-rejected"]++
				continue
			}
			r.fail(Failure{Why: "compile", Src: c.Src, Mode: m.String(), Got: cg, Tags: c.Tags})
			continue
		}
		r.sum.Programs++
		// C17: the same occurrences in a compilation whose first type check fails elsewhere and is repaired by a
		// Patch visitor (`[Zq, <source>][1]` with a visitor that replaces the unknown name Zq by 1): the mapping
		// applies as before
		var prog2 *vm.Program
		src2 := "[Zq, " + c.Src + "][1]"
		if r.prop == "C17" && m.Env != "none" && !m.Undef {
			p2, cg2 := CompileMode(src2, m, append(append([]expr.Option{}, extra...), expr.Patch(&zqFixer{}))...)
			if cg2 != nil {
				r.fail(Failure{Why: "compile-after-repairing-visitor", Src: src2, Mode: m.String(), Got: cg2, Tags: c.Tags})
			} else {
				prog2 = p2
			}
		}
		for i := range c.Runs {
			rc := c.Runs[i]
			e, err := BuildEnv(rc.Env, lg)
			if err != nil {
				r.sum.Infra = append(r.sum.Infra, err.Error())
				continue
			}
			if prog2 != nil {
				g2 := RunMode(src2, prog2, m, e, lg)
				r.sum.Executions++
				if ok, why := conforms(g2, rc.Exp, rc.Exp.Ok); !ok {
					exp := rc.Exp
					r.fail(Failure{Why: "repaired-" + why, Src: src2, Mode: m.String(), Env: rc.Env, Budget: rc.Budget,
						Exp: &exp, Got: &g2, DevMatch: devMatches(g2, rc.Dev, true), Tags: c.Tags})
				}
			}
			restore := setBudget(rc.Budget)
			g := RunMode(c.Src, prog, m, e, lg)
			restore()
			r.sum.Executions++
			// C17: which calls precede a failure is an evaluation-order matter (C01's subject)
			withCalls := r.prop != "C17" || rc.Exp.Ok
			if ok, why := conforms(g, rc.Exp, withCalls); !ok {
				exp := rc.Exp
				r.fail(Failure{Why: why, Src: c.Src, Mode: m.String(), Env: rc.Env, Budget: rc.Budget,
					Exp: &exp, Got: &g, DevMatch: devMatches(g, rc.Dev, true), Tags: c.Tags})
			}
			if len(rc.Env) > 0 || len(rc.Exp.Calls) > 0 {
				nontrivial = true
			}
		}
	}
	if nontrivial || c.N >= 3 {
		r.sum.Nontrivial++
	}
	r.sample(c)
}

func runReplay(args []string) int {
	prop, in, failPath, sumPath, modesArg := "", "", "", "", "struct:opt,struct:noopt"
	from, only, progress := 0, -1, ""
	var opts map[string]string
	for i := 0; i+1 < len(args); i += 2 {
		switch args[i] {
		case "-from": // skip the cases before this index (0-based)
			fmt.Sscan(args[i+1], &from)
		case "-only": // run exactly this case
			fmt.Sscan(args[i+1], &only)
		case "-progress": // file that always holds the index of the case being executed
			progress = args[i+1]
		default:
			if opts == nil {
				opts = map[string]string{}
			}
			opts[args[i]] = args[i+1]
		case "-prop":
			prop = args[i+1]
		case "-in":
			in = args[i+1]
		case "-fail":
			failPath = args[i+1]
		case "-sum":
			sumPath = args[i+1]
		case "-modes":
			modesArg = args[i+1]
		}
	}
	r := &replayer{prop: prop, maxSamp: 5, opts: opts}
	if r.opts == nil {
		r.opts = map[string]string{}
	}
	r.sum.Prop = prop
	r.sum.Skipped = map[string]int{}
	r.sum.Stats = map[string]int{}
	for _, s := range strings.Split(modesArg, ",") {
		m, err := ParseMode(s)
		if err != nil {
			fmt.Fprintln(os.Stderr, err)
			return 2
		}
		r.modes = append(r.modes, m)
	}
	ff, err := os.Create(failPath)
	if err != nil {
		fmt.Fprintln(os.Stderr, err)
		return 2
	}
	defer ff.Close()
	r.failOut = json.NewEncoder(ff)

	var rd io.Reader = os.Stdin
	if in != "-" && in != "" {
		f, err := os.Open(in)
		if err != nil {
			fmt.Fprintln(os.Stderr, err)
			return 2
		}
		defer f.Close()
		rd = f
	}
	sc := bufio.NewScanner(rd)
	sc.Buffer(make([]byte, 1<<20), 1<<28)
	idx := -1
	restart := false
	var pf *os.File
	if progress != "" {
		pf, _ = os.Create(progress)
		defer pf.Close()
	}
	for sc.Scan() {
		line := sc.Bytes()
		if len(line) == 0 {
			continue
		}
		idx++
		if idx < from || (only >= 0 && idx != only) {
			continue
		}
		if pf != nil {
			pf.WriteAt([]byte(fmt.Sprintf("%-12d", idx)), 0)
		}
		r.sum.Cases++
		err := func() (err error) {
			defer func() {
				if p := recover(); p != nil {
					if _, ok := p.(restartSentinel); !ok {
						panic(p)
					}
					r.sum.Stats["cases cut short after a hang"]++
				}
			}()
			return r.dispatch(line)
		}()
		if err != nil {
			r.sum.Infra = append(r.sum.Infra, err.Error())
			if len(r.sum.Infra) > 20 {
				break
			}
		}
		if hangSeen.Load() {
			// the execution that hung keeps running in this process and cannot be stopped: hand over to a fresh one
			r.sum.RestartAt = idx
			restart = true
			break
		}
	}
	sf, err := os.Create(sumPath)
	if err != nil {
		fmt.Fprintln(os.Stderr, err)
		return 2
	}
	defer sf.Close()
	enc := json.NewEncoder(sf)
	enc.Encode(r.sum)
	if len(r.sum.Infra) > 0 {
		return 2
	}
	if restart {
		return 4
	}
	return 0
}

func (r *replayer) dispatch(line []byte) error {
	switch r.prop {
	case "C01":
		var c Case
		if err := json.Unmarshal(line, &c); err != nil {
			return err
		}
		r.evalCase(c)
	case "C05OC":
		var c Case
		if err := json.Unmarshal(line, &c); err != nil {
			return err
		}
		r.ovConstCase(c)
	case "C05CE":
		var c Case
		if err := json.Unmarshal(line, &c); err != nil {
			return err
		}
		r.cleanExitCase(c)
	case "C05OV":
		var c OvCase
		if err := json.Unmarshal(line, &c); err != nil {
			return err
		}
		r.ovCase(c)
	case "C14":
		var c Case
		if err := json.Unmarshal(line, &c); err != nil {
			return err
		}
		r.promoCase(c)
	case "C02", "C15":
		var c Case
		if err := json.Unmarshal(line, &c); err != nil {
			return err
		}
		r.pairCase(c, r.prop == "C02")
	case "C18":
		var c LawCase
		if err := json.Unmarshal(line, &c); err != nil {
			return err
		}
		r.lawCase(c)
	case "C10":
		var c WalkCase
		if err := json.Unmarshal(line, &c); err != nil {
			return err
		}
		r.walkCase(c)
	case "C09":
		var c Case
		if err := json.Unmarshal(line, &c); err != nil {
			return err
		}
		r.pureCase(c)
	case "C17":
		var c Case
		if err := json.Unmarshal(line, &c); err != nil {
			return err
		}
		if r.extra == nil {
			r.extra = []expr.Option{expr.Operator("+", "Add")}
			r.badOperatorMappings()
		}
		r.evalCase(c)
	case "C06":
		var c Case
		if err := json.Unmarshal(line, &c); err != nil {
			return err
		}
		r.budgetCase(c)
	case "C07":
		var c HCase
		if err := json.Unmarshal(line, &c); err != nil {
			return err
		}
		r.histCase(c)
	case "C08S":
		var c SchedCase
		if err := json.Unmarshal(line, &c); err != nil {
			return err
		}
		r.schedCase(c)
	case "C08R":
		var c Case
		if err := json.Unmarshal(line, &c); err != nil {
			return err
		}
		if r.ocSeen == 0 {
			r.raceCompileEmbedded()
			r.raceSharedOptions()
		}
		r.ocSeen++
		stride := 1
		fmt.Sscan(r.opts["-stride"], &stride)
		if stride <= 1 || r.ocSeen%stride == 1 {
			r.raceCase(c)
		}
	case "C17M":
		var c OpTableCase
		if err := json.Unmarshal(line, &c); err != nil {
			return err
		}
		r.opTableCase(c)
	case "C09M":
		var c OpTableCase
		if err := json.Unmarshal(line, &c); err != nil {
			return err
		}
		r.opTableDeterminism(c)
	case "C04P":
		var c PipeCase
		if err := json.Unmarshal(line, &c); err != nil {
			return err
		}
		r.pipeCase(c)
	case "C04T":
		var c LexCase
		if err := json.Unmarshal(line, &c); err != nil {
			return err
		}
		r.textCase(c)
	case "C04F":
		return r.faultCase(line)
	case "C02R":
		return r.acceptedAlikeCase(line)
	case "C04Q":
		var c FrontCase
		if err := json.Unmarshal(line, &c); err != nil {
			return err
		}
		if len(c.Texts) > 0 {
			r.containment(c.Texts[0], "token-sequence")
		}
		if c.N >= 3 {
			r.sum.Nontrivial++
		}
		r.sample(c)
	case "C03S":
		var c Case
		if err := json.Unmarshal(line, &c); err != nil {
			return err
		}
		r.soundCase(c)
	case "C03R":
		return r.rejectCase(line)
	case "C13":
		var c ErrCase
		if err := json.Unmarshal(line, &c); err != nil {
			return err
		}
		r.errCase(c)
	case "C12":
		var c LexCase
		if err := json.Unmarshal(line, &c); err != nil {
			return err
		}
		r.lexCase(c)
	case "C11":
		var c FrontCase
		if err := json.Unmarshal(line, &c); err != nil {
			return err
		}
		r.frontCase(c)
	case "PROG":
		var c ProgCase
		if err := json.Unmarshal(line, &c); err != nil {
			return err
		}
		r.progCase(c)
	default:
		return fmt.Errorf("no replay driver for %s", r.prop)
	}
	return nil
}

// badOperatorMappings: a mapping that names a missing or ill-shaped function
// must be rejected by Compile (C17, last sentence).
func (r *replayer) badOperatorMappings() {
	for _, fns := range [][]string{{"Nope"}, {"IsPos"}, {"I"}, {"Cat3"}, {"Nope", "Add"}, {"IsPos", "Add"}, {"Add", "I"}, {"I", "AddAny", "Add"}} {
		m := Mode{Env: "struct", Optimize: true}
		_, cg := CompileMode("1 + 2", m, expr.Operator("+", fns...))
		fn := strings.Join(fns, ",")
		r.sum.Executions++
		r.sum.Stats["bad-mappings-tried"]++
		if cg == nil {
			r.fail(Failure{Why: "bad-operator-mapping-accepted", Src: "1 + 2", Mode: m.String(), Tags: []string{"Operator(+," + fn + ")"}})
		} else if cg.Panic != "" || cg.Hang {
			r.sum.Stats["bad-mapping-panics (C04's subject)"]++
		}
	}
}

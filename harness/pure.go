package main

// C09: compiling the same source with the same options twice yields the same
// program, byte for byte and constant for constant; a run modifies neither the
// program, nor the environment value, nor the sample environment given to
// Compile; a second run on an equal environment yields an equal result (which
// is also the result the specification assigns).

import (
	"bytes"
	"fmt"
	"reflect"

	"github.com/antonmedv/expr"
	"github.com/antonmedv/expr/vm"
)

func snapshotEnv(e *Env) string {
	rv := reflect.ValueOf(e).Elem()
	rt := rv.Type()
	m := map[string]Val{}
	for i := 0; i < rt.NumField(); i++ {
		f := rt.Field(i)
		if f.PkgPath != "" || f.Type.Kind() == reflect.Func {
			continue
		}
		m[f.Name] = Abs(rv.Field(i).Interface())
	}
	return toJSON(m)
}

// envEqual: every non-function member of a deep-equals that of b (b is a
// pristine environment built from the same assignment).
func envEqual(a, b *Env) bool {
	ra, rb := reflect.ValueOf(a).Elem(), reflect.ValueOf(b).Elem()
	rt := ra.Type()
	for i := 0; i < rt.NumField(); i++ {
		f := rt.Field(i)
		if f.PkgPath != "" || f.Type.Kind() == reflect.Func {
			continue
		}
		if !reflect.DeepEqual(ra.Field(i).Interface(), rb.Field(i).Interface()) {
			return false
		}
	}
	return true
}

func sameProgram(a, b *vm.Program) bool {
	pa, pb := AbsProg(a), AbsProg(b)
	if len(pa.Code) != len(pb.Code) || len(pa.Consts) != len(pb.Consts) {
		return false
	}
	for i := range pa.Code {
		if pa.Code[i] != pb.Code[i] {
			return false
		}
	}
	for i := range pa.Consts {
		if !strictEq(pa.Consts[i], pb.Consts[i]) || reflect.TypeOf(a.Constants[i]) != reflect.TypeOf(b.Constants[i]) {
			return false
		}
	}
	return len(a.Locations) == len(b.Locations)
}

// historyProbe: what Compile accepts for a value environment must not depend on
// whether a pointer to the same type was compiled against earlier in the process
// (PtrM has a pointer receiver: it is not in the method set of a value).
func (r *replayer) historyProbe() {
	acc := func(env interface{}) bool {
		ok := false
		guarded(func() {
			p, err := expr.Compile("PtrM(1)", expr.Env(env))
			ok = err == nil && p != nil
		})
		r.sum.Executions++
		return ok
	}
	r.embeddedNameProbe()
	first := acc(*NewEnv(nil))
	viaPtr := acc(NewEnv(nil))
	second := acc(*NewEnv(nil))
	// Go's method sets: a pointer-receiver method belongs to the pointer, not to the value
	if !viaPtr {
		r.fail(Failure{Why: "pointer-environment-method-rejected", Src: "PtrM(1)", Mode: "ptr",
			Tags: []string{"PtrM has a pointer receiver and the environment is passed by pointer"}})
	}
	if first != second {
		r.fail(Failure{Why: "compile-depends-on-earlier-compiles", Src: "PtrM(1)", Mode: "struct",
			Tags: []string{fmt.Sprintf("Env(value): accepted=%v; after Env(pointer) of the same type: accepted=%v", first, second)}})
	}
	if second {
		var err error
		guarded(func() {
			p, e := expr.Compile("PtrM(1)", expr.Env(*NewEnv(nil)))
			if e == nil {
				_, err = expr.Run(p, *NewEnv(&Log{}))
			}
		})
		if err != nil {
			r.fail(Failure{Why: "accepted-for-a-value-environment-but-unresolvable", Src: "PtrM(1)", Mode: "struct", Got: &Got{Err: err.Error()}})
		}
	}
}

// hiddenBase: an embedded struct whose TYPE NAME is unexported.  Its exported fields are promoted (Q is a member
// of the environment); the embedded field itself, named like the type, cannot be reached from outside the package.
type hiddenBase struct{ Q int }
type probeEnv struct {
	hiddenBase
	Limit int
}

// embeddedNameProbe: C03's "unknown name ... is rejected" and soundness on an environment with an embedded struct
// of unexported type name: the promoted field is accepted and resolves, the embedded field's own name is not a name
// of the environment (accepting it yields programs that cannot fetch it).
func (r *replayer) embeddedNameProbe() {
	env := probeEnv{hiddenBase{7}, 9}
	for _, src := range []string{"hiddenBase.Q < Limit", "hiddenBase == nil", "hiddenBase"} {
		var p *vm.Program
		var err, rerr error
		guarded(func() {
			p, err = expr.Compile(src, expr.Env(env))
			if err == nil {
				_, rerr = expr.Run(p, env)
			}
		})
		r.sum.Executions++
		if err == nil && rerr != nil {
			r.fail(Failure{Why: "typed-program-fails", Src: src, Mode: "struct",
				Got:  &Got{Stage: "run", Err: rerr.Error()},
				Tags: []string{"environment struct{ hiddenBase; Limit int }: the embedded field of unexported type name is not reachable"}})
		}
	}
	var out interface{}
	var err error
	guarded(func() { out, err = expr.Eval("Q + Limit", env) })
	r.sum.Executions++
	if err != nil || out != 16 {
		r.fail(Failure{Why: "promoted-field-of-unexported-embedded-type", Src: "Q + Limit", Mode: "struct", Got: &Got{Err: fmt.Sprint(out, err)}})
	}
}

// layoutProbe: C15 on anonymous struct types.  Two environment types with the same (empty) name and the same
// members in another order, used one after the other in one process, and a map with the same members: equal results.
func (r *replayer) layoutProbe() {
	type res struct {
		v   interface{}
		err error
	}
	ev := func(src string, env interface{}) res {
		var x res
		guarded(func() { x.v, x.err = expr.Eval(src, env) })
		r.sum.Executions++
		return x
	}
	a := struct {
		Name      string
		Qty, Unit int
	}{"bolt", 3, 5}
	b := struct {
		Qty, Unit int
		Name      string
	}{40, 2, "nut"}
	mb := map[string]interface{}{"Qty": 40, "Unit": 2, "Name": "nut"}
	for _, src := range []string{"Qty + 1", "Qty * Unit", "Name + \"!\"", "Qty in [3, 40]"} {
		ev(src, a) // whatever the library remembers about the first type
		g, w := ev(src, b), ev(src, mb)
		if (g.err == nil) != (w.err == nil) || (g.err == nil && !reflect.DeepEqual(g.v, w.v)) {
			r.fail(Failure{Why: "differ-value", Src: src, Mode: "struct", Mode2: "map",
				Got:  &Got{Err: fmt.Sprint(g.v, g.err)},
				Tags: []string{"anonymous struct{Qty, Unit int; Name string}{40, 2, \"nut\"} after struct{Name string; Qty, Unit int}; the map gives " + fmt.Sprint(w.v, w.err)}})
		}
	}
}

func (r *replayer) pureCase(c Case) {
	if !r.probed {
		r.probed = true
		r.historyProbe()
	}
	lg := &Log{}
	for _, m := range r.modes {
		sample, pristine := NewEnv(nil), NewEnv(nil)
		if len(c.Runs) > 0 {
			if s, err := BuildEnv(c.Runs[0].Env, nil); err == nil {
				sample = s
				pristine, _ = BuildEnv(c.Runs[0].Env, nil)
			}
		}
		opts := []expr.Option{expr.Optimize(m.Optimize)}
		var sampleMap map[string]interface{}
		if m.Env == "map" {
			sampleMap = sample.AsMap()
			opts = append(opts, expr.Env(sampleMap))
		} else {
			opts = append(opts, expr.Env(sample))
		}
		var p1, p2 *vm.Program
		var e1, e2 error
		var more []*vm.Program
		pmsg, hang := guarded(func() {
			p1, e1 = expr.Compile(c.Src, opts...)
			p2, e2 = expr.Compile(c.Src, opts...)
			// further compilations: an order that depends on map iteration shows with probability 1/2 each time
			for k := 0; k < 4 && e1 == nil && e2 == nil; k++ {
				if p, err := expr.Compile(c.Src, opts...); err == nil {
					more = append(more, p)
				}
			}
		})
		if pmsg != "" || hang {
			r.sum.Stats["compile-panic (C04's subject)"]++
			continue
		}
		if (e1 == nil) != (e2 == nil) {
			r.fail(Failure{Why: "compile-nondeterministic", Src: c.Src, Mode: m.String()})
			continue
		}
		if e1 != nil {
			r.sum.Skipped["rejected by compile"]++
			continue
		}
		r.sum.Programs += 2 + len(more)
		for _, p := range more {
			if sameProgram(p1, p2) && !sameProgram(p1, p) {
				p2 = p
			}
		}
		if !sameProgram(p1, p2) {
			r.fail(Failure{Why: "program-differs-between-compiles", Src: c.Src, Mode: m.String(),
				Tags: []string{"first=" + toJSON(AbsProg(p1)), "second=" + toJSON(AbsProg(p2))}})
		}
		if !envEqual(sample, pristine) {
			r.fail(Failure{Why: "compile-modified-sample-env", Src: c.Src, Mode: m.String()})
		}
		image := append([]byte{}, p1.Bytecode...)
		nconst := len(p1.Constants)
		cimage := toJSON(AbsProg(p1).Consts)
		for i := range c.Runs {
			rc := c.Runs[i]
			e, err := BuildEnv(rc.Env, lg)
			if err != nil {
				r.sum.Infra = append(r.sum.Infra, err.Error())
				continue
			}
			ref, _ := BuildEnv(rc.Env, lg)
			rm := Mode{Env: "ptr", Optimize: m.Optimize}
			if m.Env == "map" {
				rm.Env = "map"
			}
			g1 := RunMode(c.Src, p1, rm, e, lg)
			midOK := envEqual(e, ref)
			g2 := RunMode(c.Src, p1, rm, e, lg)
			r.sum.Executions += 2
			if ok, why := sameGot(g1, g2); !ok || !callsEq(g1.Calls, g2.Calls) {
				r.fail(Failure{Why: "rerun-differs-" + why, Src: c.Src, Mode: m.String(), Env: rc.Env, Got: &g1, Got2: &g2})
			}
			if !midOK || !envEqual(e, ref) {
				r.fail(Failure{Why: "run-modified-environment", Src: c.Src, Mode: m.String(), Env: rc.Env, Got: &g1,
					Tags: []string{"before=" + snapshotEnv(ref), "after=" + snapshotEnv(e)}})
			}
			if !bytes.Equal(p1.Bytecode, image) || len(p1.Constants) != nconst {
				r.fail(Failure{Why: "run-modified-program", Src: c.Src, Mode: m.String(), Env: rc.Env, Got: &g1})
				image = append([]byte{}, p1.Bytecode...)
			}
		}
		if toJSON(AbsProg(p1).Consts) != cimage {
			r.fail(Failure{Why: "run-modified-program", Src: c.Src, Mode: m.String()})
		}
		if !envEqual(sample, pristine) {
			r.fail(Failure{Why: "run-modified-sample-env", Src: c.Src, Mode: m.String()})
		}
	}
	if c.N >= 3 {
		r.sum.Nontrivial++
	}
	r.sample(c)
}

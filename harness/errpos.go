package main

// C13: the position an error names.  Cases come from MC_Err.tla (a fault
// injected at a known token of a well-typed expression: compile faults and
// run-time faults) and from MC_Front.tla (token sequences the reference
// grammar rejects at a known token).  Every *file.Error must name the expected
// (line, column), lie inside the source, and carry the source line it names.

import (
	"encoding/json"
	"fmt"
	"strings"
	"unicode/utf8"

	"github.com/antonmedv/expr"
	"github.com/antonmedv/expr/file"
)

type PosT struct {
	Line int `json:"line"`
	Col  int `json:"col"`
}

type ErrText struct {
	Text   string `json:"text"`
	Pos    PosT   `json:"pos"`
	Anchor string `json:"anchor"`
}

type ErrCase struct {
	Kind  string            `json:"kind"` // compile | run | seq
	Fault string            `json:"fault,omitempty"`
	N     int               `json:"n"`
	Envs  []EnvAsg          `json:"envs,omitempty"`
	Texts json.RawMessage   `json:"texts"`
	Ok    *bool             `json:"ok,omitempty"`
	At    int               `json:"at,omitempty"`
	Pos   []PosT            `json:"pos,omitempty"`
	dummy map[string]string // keep the struct comparable with older cases
}

func asFileError(err error) *file.Error {
	if fe, ok := err.(*file.Error); ok {
		return fe
	}
	return nil
}

// checkInside: the location lies inside the source and the snippet is the line it names.
func checkInside(text string, fe *file.Error) string {
	lines := strings.Split(text, "\n")
	if fe.Line < 1 || fe.Line > len(lines) {
		return fmt.Sprintf("line %d outside the source (%d lines)", fe.Line, len(lines))
	}
	ln := lines[fe.Line-1]
	if fe.Column < 0 || fe.Column > utf8.RuneCountInString(ln) {
		return fmt.Sprintf("column %d outside line %d (%d runes)", fe.Column, fe.Line, utf8.RuneCountInString(ln))
	}
	want := strings.Replace(ln, "\t", " ", -1)
	snip := strings.TrimPrefix(fe.Snippet, "\n | ")
	if i := strings.Index(snip, "\n"); i >= 0 {
		snip = snip[:i]
	}
	if fe.Snippet != "" && snip != want {
		return fmt.Sprintf("snippet %q is not line %d (%q)", snip, fe.Line, want)
	}
	return ""
}

func (r *replayer) checkPos(kind, fault, text, mode string, err error, want *PosT) {
	r.sum.Executions++
	fe := asFileError(err)
	if fe == nil {
		r.fail(Failure{Why: "error-without-position", Src: text, Mode: mode, Got: &Got{Stage: kind, Err: err.Error()}, Tags: []string{fault}})
		return
	}
	if msg := checkInside(text, fe); msg != "" {
		r.fail(Failure{Why: "position-outside-source", Src: text, Mode: mode, Got: &Got{Stage: kind, Err: err.Error()}, Tags: []string{fault, msg}})
		return
	}
	if want != nil && (fe.Line != want.Line || fe.Column != want.Col) {
		r.fail(Failure{Why: "wrong-position", Src: text, Mode: mode, Got: &Got{Stage: kind, Err: err.Error()},
			Tags: []string{fault, fmt.Sprintf("want %d:%d got %d:%d (0-based column)", want.Line, want.Col, fe.Line, fe.Column)}})
	}
}

// multi-byte variants with the same number of runes
func nonASCII(text string) string {
	return strings.NewReplacer("ZQ8", "é世\U0001F600").Replace(text)
}

func (r *replayer) errCase(c ErrCase) {
	lg := &Log{}
	switch c.Kind {
	case "seq":
		var texts []string
		if err := json.Unmarshal(c.Texts, &texts); err != nil {
			r.sum.Infra = append(r.sum.Infra, err.Error())
			return
		}
		if c.Ok != nil && *c.Ok {
			return // sentences are C11's subject
		}
		for i, text := range texts {
			_, err, g := parseGuarded(text)
			if g != nil || err == nil {
				r.sum.Stats["not rejected or panics (C11/C04's subject)"]++
				continue
			}
			var want *PosT
			if i < len(c.Pos) {
				want = &c.Pos[i]
			}
			r.checkPos("parse", "unexpected token", text, fmt.Sprintf("text%d", i), err, want)
			// the same sequence with multi-byte identifiers: b -> é (one rune each)
			if strings.Contains(text, "b") {
				t2 := strings.Replace(text, "b", "é", -1)
				if _, err2, g2 := parseGuarded(t2); g2 == nil && err2 != nil {
					r.checkPos("parse", "unexpected token", t2, fmt.Sprintf("text%d:multibyte", i), err2, want)
				}
			}
		}
		if c.At > 0 {
			r.sum.Nontrivial++
		}
	case "compile":
		var texts []ErrText
		if err := json.Unmarshal(c.Texts, &texts); err != nil {
			r.sum.Infra = append(r.sum.Infra, err.Error())
			return
		}
		for _, t := range texts {
			for _, m := range r.modes {
				_, cg := CompileMode(t.Text, m)
				if cg == nil {
					r.fail(Failure{Why: "fault-accepted", Src: t.Text, Mode: m.String(), Tags: []string{c.Fault}})
					continue
				}
				if cg.Panic != "" || cg.Hang {
					r.sum.Stats["compile panics (C04's subject)"]++
					continue
				}
				var err error
				guarded(func() { _, err = expr.Compile(t.Text, m.options()...) })
				if err == nil {
					continue
				}
				pos := t.Pos
				r.checkPos("compile", c.Fault, t.Text, m.String(), err, &pos)
			}
		}
		r.sum.Nontrivial++
	case "run":
		var texts []ErrText
		if err := json.Unmarshal(c.Texts, &texts); err != nil {
			r.sum.Infra = append(r.sum.Infra, err.Error())
			return
		}
		for _, t := range texts {
			text := nonASCII(t.Text)
			for _, m := range r.modes {
				if m.Env == "none" && c.Fault != "name missing at run time" {
					// compiled without an environment type the literals of call arguments are not retyped, so another
					// operation of the tree may fail first: that mode serves the one fault that needs it
					continue
				}
				prog, cg := CompileMode(text, m)
				if cg != nil {
					if cg.Panic != "" || cg.Hang {
						r.sum.Stats["compile panics (C04's subject)"]++
					} else {
						r.sum.Skipped["rejected by compile"]++
					}
					continue
				}
				r.sum.Programs++
				for _, asg := range c.Envs {
					e, err := BuildEnv(asg, lg)
					if err != nil {
						r.sum.Infra = append(r.sum.Infra, err.Error())
						continue
					}
					var rerr error
					pmsg, hang := guarded(func() { _, rerr = expr.Run(prog, envValue(e, m)) })
					if pmsg != "" || hang {
						r.sum.Stats["run panics (C04's subject)"]++
						continue
					}
					if rerr == nil {
						r.sum.Stats["the faulty run succeeds (C01's subject)"]++
						continue
					}
					if m.Env == "none" && !strings.Contains(rerr.Error(), "cannot fetch Zq") {
						// compiled without an environment type another operation of the tree may fail first (the literals
						// of call arguments are not retyped there): only the failure that names the missing member is the fault
						r.sum.Stats["untyped mode: another operation failed first"]++
						continue
					}
					pos := t.Pos
					r.checkPos("run", c.Fault, text, m.String(), rerr, &pos)
				}
			}
		}
		r.sum.Nontrivial++
	}
	r.sample(c)
}

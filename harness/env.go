package main

// The environment universe (DESIGN.md 3.3).  The specification carries the
// same signature as Sem!MemberType / Sem!FnSig / Sem!MethSig; `harness sig`
// prints the signature as seen by reflection so that bin/check can compare
// it with the specification (a drift is an infrastructure error, exit 2).

import (
	"fmt"
	"reflect"
	"sort"
)

// CallRec is one entry of the call log of environment functions.
type CallRec struct {
	Fn   string `json:"fn"`
	Args []Val  `json:"args"`
}

// Log is the per-run call log.
type Log struct {
	Calls []CallRec
}

func (l *Log) add(fn string, args ...interface{}) {
	if l == nil {
		return
	}
	logMu.Lock()
	defer logMu.Unlock()
	as := make([]Val, len(args))
	for i, a := range args {
		as[i] = Abs(a)
	}
	l.Calls = append(l.Calls, CallRec{Fn: fn, Args: as})
}

func (l *Log) reset() {
	if l != nil {
		l.Calls = nil
	}
}

type Obj struct {
	N    int
	Name string
	Next *Obj
	Tags []string
	lg   *Log
}

func (o Obj) GetN() int {
	o.lg.add("GetN")
	return o.N
}

func (o *Obj) Bump(d int) int {
	o.lg.add("Bump", d)
	return o.N + d
}

type Env struct {
	I, J, K int
	I8      int8
	I16     int16
	I32     int32
	I64     int64
	U       uint
	U8      uint8
	U16     uint16
	U32     uint32
	U64     uint64
	F32     float32
	F, G    float64
	B, C    bool
	S, T    string
	Xs      []int
	Ys      []int
	Big     []int
	Fs      []float64
	Ss      []string
	Anys    []interface{}
	Any     interface{}
	M       map[string]int
	MA      map[string]interface{}
	PM      *map[string]bool // a pointer to a map: the checker's predicates look through the pointer
	O       Obj
	P       *Obj
	Os      []Obj
	Ps      []*Obj

	Id     func(int) int
	Neg    func(int) int
	Add    func(int, int) int
	IsPos  func(int) bool
	Cat    func(string, string) string
	Half   func(float64) float64
	Sum    func([]int) int
	Len3   func([]interface{}) int
	AnyId  func(interface{}) interface{}
	Boom   func(int) int
	NilFn  func(int) int
	I8Id   func(int8) int8
	Var    func(...interface{}) interface{}
	Pair   func(interface{}, interface{}) interface{}
	AddF   func(float64, float64) float64
	AddAny func(interface{}, interface{}) interface{}
	Rev    func([]int) []int
	Tup    func(...interface{}) interface{}
	VarI   func(...interface{}) interface{}
	Add3   func(int, int, int) int
	EqI    func(int, int) bool

	lg *Log
}

func (e Env) Twice(x int) int {
	e.lg.add("Twice", x)
	return 2 * x
}

// MAdd: a method fit for an operator table (C17, OpTable.tla).
func (e Env) MAdd(a, b int) int {
	e.lg.add("MAdd", a, b)
	return a + b + 1000
}

// PtrM is only in the method set of *Env.
func (e *Env) PtrM(x int) int {
	e.lg.add("PtrM", x)
	return x + 1
}

// NewEnv returns the zero environment with its functions bound to log.
func NewEnv(lg *Log) *Env {
	e := &Env{lg: lg}
	e.O.lg = lg
	e.Id = func(x int) int { lg.add("Id", x); return x }
	e.Neg = func(x int) int { lg.add("Neg", x); return -x }
	e.Add = func(a, b int) int { lg.add("Add", a, b); return a + b }
	e.IsPos = func(x int) bool { lg.add("IsPos", x); return x > 0 }
	e.Cat = func(a, b string) string { lg.add("Cat", a, b); return a + b }
	e.Half = func(x float64) float64 { lg.add("Half", x); return x / 2 }
	e.Sum = func(xs []int) int {
		lg.add("Sum", xs)
		s := 0
		for _, x := range xs {
			s += x
		}
		return s
	}
	e.Len3 = func(xs []interface{}) int { lg.add("Len3", xs); return len(xs) }
	e.AnyId = func(x interface{}) interface{} { lg.add("AnyId", x); return x }
	e.Boom = func(x int) int { lg.add("Boom", x); panic("boom") }
	e.NilFn = nil
	e.I8Id = func(x int8) int8 { lg.add("I8Id", x); return x }
	e.Var = func(xs ...interface{}) interface{} { lg.add("Var", xs...); return len(xs) }
	e.AddF = func(a, b float64) float64 { lg.add("AddF", a, b); return a + b }
	e.AddAny = func(a, b interface{}) interface{} { lg.add("AddAny", a, b); return []interface{}{a, b} }
	// Rev reverses its argument IN PLACE (a callee may write to a slice it is given)
	e.Rev = func(xs []int) []int {
		lg.add("Rev", append([]int{}, xs...))
		for i, j := 0, len(xs)-1; i < j; i, j = i+1, j-1 {
			xs[i], xs[j] = xs[j], xs[i]
		}
		return xs
	}
	e.Pair = func(a, b interface{}) interface{} { lg.add("Pair", a, b); return []interface{}{a, b} }
	// Tup returns its variadic slice itself (a callee may retain its arguments)
	e.Tup = func(xs ...interface{}) interface{} { lg.add("Tup", xs...); return xs }
	// VarI depends on the environment value it is a member of (a per-request closure)
	e.EqI = func(a, b int) bool { lg.add("EqI", a, b); return a+1 == b } // not the built-in equality
	e.Add3 = func(a, b, c int) int { lg.add("Add3", a, b, c); return a + b + c }
	e.VarI = func(xs ...interface{}) interface{} { lg.add("VarI", xs...); return e.I + len(xs) }
	return e
}

// setLogs walks Obj values reachable from the environment and binds their log.
func bindObj(o *Obj, lg *Log, depth int) {
	if o == nil || depth > 8 {
		return
	}
	o.lg = lg
	bindObj(o.Next, lg, depth+1)
}

func (e *Env) bindLogs() {
	lg := e.lg
	bindObj(&e.O, lg, 0)
	bindObj(e.P, lg, 0)
	for i := range e.Os {
		bindObj(&e.Os[i], lg, 0)
	}
	for _, p := range e.Ps {
		bindObj(p, lg, 0)
	}
	rebind := func(v interface{}) interface{} {
		switch x := v.(type) {
		case Obj:
			bindObj(&x, lg, 0)
			return x
		case *Obj:
			bindObj(x, lg, 0)
		}
		return v
	}
	e.Any = rebind(e.Any)
	for i := range e.Anys {
		e.Anys[i] = rebind(e.Anys[i])
	}
}

// BuildEnv: the zero environment overridden by the assignment of a case.
func BuildEnv(asg map[string]Val, lg *Log) (*Env, error) {
	e := NewEnv(lg)
	rv := reflect.ValueOf(e).Elem()
	for name, v := range asg {
		f := rv.FieldByName(name)
		if !f.IsValid() || !f.CanSet() {
			return nil, fmt.Errorf("no member %s", name)
		}
		x, err := Concretize(v, f.Type())
		if err != nil {
			return nil, fmt.Errorf("member %s: %v", name, err)
		}
		f.Set(x)
	}
	e.bindLogs()
	return e, nil
}

// AsMap offers the same members as a map[string]interface{} (C15).
func (e *Env) AsMap() map[string]interface{} {
	m := map[string]interface{}{}
	rv := reflect.ValueOf(e).Elem()
	rt := rv.Type()
	for i := 0; i < rt.NumField(); i++ {
		if rt.Field(i).PkgPath != "" {
			continue
		}
		m[rt.Field(i).Name] = rv.Field(i).Interface()
	}
	m["Twice"] = e.Twice
	return m
}

// AsAltMap: another environment type with the same member names in which the
// function named Add takes float64 parameters (C17: an operator mapping is
// resolved against the environment being compiled).
func (e *Env) AsAltMap() map[string]interface{} {
	m := e.AsMap()
	m["Add"] = e.AddF
	return m
}

func goTypeName(t reflect.Type) string {
	switch t.Kind() {
	case reflect.Interface:
		return "any"
	case reflect.Slice:
		return "[]" + goTypeName(t.Elem())
	case reflect.Map:
		return "map[" + goTypeName(t.Key()) + "]" + goTypeName(t.Elem())
	case reflect.Ptr:
		return "*" + goTypeName(t.Elem())
	case reflect.Struct:
		return t.Name()
	case reflect.Func:
		s := "func("
		for i := 0; i < t.NumIn(); i++ {
			if i > 0 {
				s += ","
			}
			if t.IsVariadic() && i == t.NumIn()-1 {
				s += "..." + goTypeName(t.In(i).Elem())
			} else {
				s += goTypeName(t.In(i))
			}
		}
		s += ")"
		for i := 0; i < t.NumOut(); i++ {
			s += goTypeName(t.Out(i))
		}
		return s
	}
	return t.Kind().String()
}

// Signature prints the environment signature as reflection sees it.
func Signature() []string {
	var out []string
	rt := reflect.TypeOf(Env{})
	for i := 0; i < rt.NumField(); i++ {
		f := rt.Field(i)
		if f.PkgPath != "" {
			continue
		}
		out = append(out, f.Name+" "+goTypeName(f.Type))
	}
	ot := reflect.TypeOf(Obj{})
	for i := 0; i < ot.NumField(); i++ {
		f := ot.Field(i)
		if f.PkgPath != "" {
			continue
		}
		out = append(out, "Obj."+f.Name+" "+goTypeName(f.Type))
	}
	sort.Strings(out)
	return out
}

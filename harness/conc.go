package main

// C08.  (1) Schedules produced by TLC from Conc.tla (which machine executes
// its next instruction at each step) are replayed on real goroutines: the
// verif hook is the gate, so the real VMs interleave at instruction
// granularity exactly in the specified order; every run must return what it
// returns alone, and the shared program and environment must be unchanged.
// (2) The same programs and concurrent Compile calls run free under the Go
// race detector (binary built with -race): a report naming a frame of the
// library is a failed case.

import (
	"fmt"
	"strings"
	"sync"

	"github.com/antonmedv/expr"
	"github.com/antonmedv/expr/vm"
)

type SchedItem struct {
	Src string  `json:"src"`
	Env EnvAsg  `json:"env"`
	Exp Outcome `json:"exp"`
}

type SchedCase struct {
	Items  []SchedItem `json:"items"`
	Sched  []int       `json:"sched"`
	Budget int         `json:"budget"`
}

var logMu sync.Mutex

// gate is the tracer of one gated goroutine
type gate struct {
	grant chan struct{}
	yield chan struct{}
	free  bool
	mu    sync.Mutex
}

func (g *gate) wait() {
	g.mu.Lock()
	free := g.free
	g.mu.Unlock()
	if free {
		return
	}
	g.yield <- struct{}{}
	<-g.grant
}
func (g *gate) Begin(vm.VerifState) { g.wait() }
func (g *gate) Step(vm.VerifState)  { g.wait() }

var (
	gateMu sync.Mutex
	gates  = map[*vm.VM]*gate{}
)

func installGateHook() {
	vm.VerifHook = func(m *vm.VM) vm.VerifTracer {
		gateMu.Lock()
		defer gateMu.Unlock()
		if g, ok := gates[m]; ok {
			return g
		}
		return nil
	}
}

func (r *replayer) schedCase(c SchedCase) {
	installGateHook()
	m := r.modes[0]
	b := c.Budget
	restore := setBudget(&b)
	defer restore()
	// one shared program per source, one shared environment per item
	progs := map[string]*vm.Program{}
	images := map[string]string{}
	for _, it := range c.Items {
		if _, ok := progs[it.Src]; ok {
			continue
		}
		p, cg := CompileMode(it.Src, m)
		if cg != nil {
			r.sum.Skipped["rejected by compile"]++
			return
		}
		progs[it.Src] = p
		images[it.Src] = toJSON(AbsProg(p))
	}
	r.sum.Programs += len(progs)
	n := len(c.Items)
	envs := make([]*Env, n)
	refs := make([]*Env, n)
	alone := make([]Got, n)
	for i, it := range c.Items {
		e, err := BuildEnv(it.Env, nil)
		if err != nil {
			r.sum.Infra = append(r.sum.Infra, err.Error())
			return
		}
		envs[i] = e
		refs[i], _ = BuildEnv(it.Env, nil)
		alone[i] = runOn(&vm.VM{}, progs[it.Src], m, e, &Log{})
	}
	// gated concurrent runs
	machines := make([]*vm.VM, n)
	gs := make([]*gate, n)
	results := make([]Got, n)
	done := make([]chan struct{}, n)
	gateMu.Lock()
	for i := range c.Items {
		machines[i] = &vm.VM{}
		gs[i] = &gate{grant: make(chan struct{}), yield: make(chan struct{})}
		gates[machines[i]] = gs[i]
		done[i] = make(chan struct{})
	}
	gateMu.Unlock()
	for i := range c.Items {
		go func(i int) {
			defer close(done[i])
			results[i] = runOn(machines[i], progs[c.Items[i].Src], m, envs[i], nil)
		}(i)
	}
	// every goroutine runs up to its first gate (the prologue is done) or finishes
	finished := make([]bool, n)
	started := make([]bool, n)
	atGate := func(i int) {
		select {
		case <-gs[i].yield:
		case <-done[i]:
			finished[i] = true
		}
	}
	for i := range c.Items {
		atGate(i)
	}
	steps := 0
	for _, who := range c.Sched {
		i := who - 1
		if i < 0 || i >= n || finished[i] {
			continue
		}
		if !started[i] {
			started[i] = true // the specification's prologue step: the real run already stands at its first gate
			continue
		}
		gs[i].grant <- struct{}{}
		steps++
		atGate(i)
	}
	// release whatever is left (the real run may take more steps than the specified one)
	for i := range c.Items {
		if finished[i] {
			continue
		}
		gs[i].mu.Lock()
		gs[i].free = true
		gs[i].mu.Unlock()
		select {
		case gs[i].grant <- struct{}{}:
		case <-done[i]:
		}
		<-done[i]
	}
	gateMu.Lock()
	for i := range c.Items {
		delete(gates, machines[i])
	}
	gateMu.Unlock()
	r.sum.Executions += n
	r.sum.Stats["gated steps"] += steps
	tag := fmt.Sprintf("schedule=%v", c.Sched)
	for i, it := range c.Items {
		g := results[i]
		if ok, why := conforms(g, it.Exp, false); !ok {
			exp := it.Exp
			r.fail(Failure{Why: "concurrent-" + why, Src: it.Src, Mode: m.String(), Env: it.Env, Exp: &exp, Got: &g, Tags: []string{tag}})
		} else if ok2, why2 := sameGot(g, alone[i]); !ok2 {
			r.fail(Failure{Why: "concurrent-vs-alone-" + why2, Src: it.Src, Mode: m.String(), Env: it.Env, Got: &g, Got2: &alone[i], Tags: []string{tag}})
		}
		if toJSON(AbsProg(progs[it.Src])) != images[it.Src] {
			r.fail(Failure{Why: "shared-program-modified", Src: it.Src, Mode: m.String(), Tags: []string{tag}})
		}
		if !envEqual(envs[i], refs[i]) {
			r.fail(Failure{Why: "shared-environment-modified", Src: it.Src, Mode: m.String(), Env: it.Env, Tags: []string{tag}})
		}
	}
	r.sum.Nontrivial++
	c2 := c
	r.sample(c2)
}

// environment types with embedded structs for concurrent compilation
type CBase1 struct{ A1 int }
type CBase2 struct{ A2 int }
type CBase3 struct{ A3 int }
type CBase4 struct{ A4 int }
type CEnv1 struct {
	CBase1
	X int
}
type CEnv2 struct {
	*CBase2
	X int
}
type CEnv3 struct {
	CBase3
	CBase1
	X int
}
type CEnv4 struct {
	CBase4
	Y []int
	X int
}

// raceCase: free-running goroutines over shared programs, environments and
// compile options.  Verdicts come from comparing results; data races are
// reported by the race detector of the -race build (collected by the
// orchestrator from the detector's log).
func (r *replayer) raceCase(c Case) {
	if len(c.Runs) == 0 {
		return
	}
	const G = 6
	for _, m := range r.modes {
		// concurrent compilation of the same source against the same sample environment
		sample := NewEnv(nil)
		opts := []expr.Option{expr.Optimize(m.Optimize)}
		if m.Env == "map" {
			opts = append(opts, expr.Env(sample.AsMap()))
		} else {
			opts = append(opts, expr.Env(sample))
		}
		progs := make([]*vm.Program, G)
		errs := make([]error, G)
		var wg sync.WaitGroup
		start := make(chan struct{})
		for k := 0; k < G; k++ {
			wg.Add(1)
			go func(k int) {
				defer wg.Done()
				defer func() { recover() }()
				<-start
				progs[k], errs[k] = expr.Compile(c.Src, opts...)
			}(k)
		}
		close(start)
		wg.Wait()
		r.sum.Executions += G
		if errs[0] != nil || progs[0] == nil {
			r.sum.Skipped["rejected by compile"]++
			continue
		}
		for k := 1; k < G; k++ {
			if progs[k] == nil || !sameProgram(progs[0], progs[k]) {
				r.fail(Failure{Why: "concurrent-compiles-differ", Src: c.Src, Mode: m.String()})
				break
			}
		}
		// a FRESH program shared by all goroutines from its very first run.  The goroutines run it on up to three
		// DIFFERENT environments at once (different values in flight), and nothing has been run before them: whatever
		// the library memoises is cold.  What each run must return is established afterwards, sequentially.
		prog := progs[0]
		rm := Mode{Env: "ptr", Optimize: m.Optimize}
		if m.Env == "map" {
			rm.Env = "map"
		}
		var envs []*Env
		var asgs []EnvAsg
		for i := range c.Runs {
			if len(envs) >= 3 {
				break
			}
			e, err := BuildEnv(c.Runs[i].Env, nil)
			if err != nil {
				continue
			}
			envs = append(envs, e)
			asgs = append(asgs, c.Runs[i].Env)
		}
		fresh, _ := expr.Compile(c.Src, opts...)
		if fresh == nil || len(envs) == 0 {
			continue
		}
		image := append([]byte{}, fresh.Bytecode...)
		gots := make([]Got, G)
		start2 := make(chan struct{})
		for k := 0; k < G; k++ {
			wg.Add(1)
			go func(k int) {
				defer wg.Done()
				<-start2
				for j := 0; j < 2; j++ {
					gots[k] = RunMode(c.Src, fresh, rm, envs[k%len(envs)], nil)
				}
			}(k)
		}
		close(start2)
		wg.Wait()
		r.sum.Executions += 2 * G
		if string(image) != string(fresh.Bytecode) {
			r.fail(Failure{Why: "shared-program-modified", Src: c.Src, Mode: m.String(), Env: asgs[0]})
		}
		for k := 0; k < G; k++ {
			want := RunMode(c.Src, prog, rm, envs[k%len(envs)], nil)
			if ok, why := sameGot(gots[k], want); !ok {
				r.fail(Failure{Why: "concurrent-run-differs-" + why, Src: c.Src, Mode: m.String(), Env: asgs[k%len(envs)], Got: &gots[k], Got2: &want})
				break
			}
		}
	}
	if c.N >= 3 {
		r.sum.Nontrivial++
	}
	r.sample(c)
}

// raceCompileEmbedded: concurrent first compilations against environment types
// with embedded structs (the type table of an embedded struct is built per call).
// raceSharedOptions: the same Option values (an operator mapped by two options, the
// first built from a slice with spare capacity) given to concurrent Compile calls.
func (r *replayer) raceSharedOptions() {
	names := make([]string, 1, 4)
	names[0] = "Add"
	opts := []expr.Option{expr.Env(NewEnv(nil)), expr.Operator("+", names...), expr.Operator("+", "AddF")}
	seq := func(src string) string {
		p, err := expr.Compile(src, opts...)
		if err != nil {
			return "error: " + err.Error()
		}
		e := NewEnv(nil)
		e.I, e.F = 3, 1.5
		out, err := expr.Run(p, e)
		return fmt.Sprintf("%v %v", out, err)
	}
	srcs := []string{"I + I", "F + F", "I + 1", "F + 0.5"}
	want := make([]string, len(srcs))
	for i, s := range srcs {
		want[i] = seq(s)
	}
	var wg sync.WaitGroup
	start := make(chan struct{})
	got := make([]string, 24)
	for k := range got {
		wg.Add(1)
		go func(k int) {
			defer wg.Done()
			defer func() {
				if p := recover(); p != nil {
					got[k] = fmt.Sprintf("panic: %v", p)
				}
			}()
			<-start
			got[k] = seq(srcs[k%len(srcs)])
		}(k)
	}
	close(start)
	wg.Wait()
	r.sum.Executions += len(got)
	for k := range got {
		if got[k] != want[k%len(srcs)] {
			r.fail(Failure{Why: "concurrent-compile-shared-options", Src: srcs[k%len(srcs)], Mode: "ptr", Got: &Got{Err: got[k]}, Tags: []string{"sequential: " + want[k%len(srcs)]}})
		}
	}
	if len(names) != 1 || cap(names) != 4 || names[:2][1] != "" {
		r.fail(Failure{Why: "caller-slice-written-by-compile", Src: "Operator(\"+\", names...)", Mode: "ptr", Tags: []string{fmt.Sprintf("%q", names[:cap(names)])}})
	}
}

func (r *replayer) raceCompileEmbedded() {
	envs := []interface{}{CEnv1{}, CEnv2{CBase2: &CBase2{}}, CEnv3{}, &CEnv4{}, &CEnv1{}, CEnv4{}}
	srcs := []string{"A1 + X", "A2 + X", "A3 + A1 + X", "A4 + len(Y) + X", "A1 * 2", "X - A4"}
	var wg sync.WaitGroup
	start := make(chan struct{})
	res := make([]string, 4*len(envs))
	for k := range res {
		wg.Add(1)
		go func(k int) {
			defer wg.Done()
			defer func() {
				if p := recover(); p != nil {
					res[k] = fmt.Sprintf("panic: %v", p)
				}
			}()
			<-start
			i := k % len(envs)
			p, err := expr.Compile(srcs[i], expr.Env(envs[i]))
			if err != nil {
				res[k] = "error: " + err.Error()
				return
			}
			out, err := expr.Run(p, envs[i])
			res[k] = fmt.Sprintf("%v %v", out, err)
		}(k)
	}
	close(start)
	wg.Wait()
	r.sum.Executions += len(res)
	for k := range res {
		if strings.HasPrefix(res[k], "panic") || strings.HasPrefix(res[k], "error") || res[k] != res[k%len(envs)] {
			r.fail(Failure{Why: "concurrent-compile-embedded", Src: srcs[k%len(envs)], Mode: "struct", Got: &Got{Err: res[k]}})
		}
	}
}

module verif/harness

go 1.13

require github.com/antonmedv/expr v0.0.0

replace github.com/antonmedv/expr => /repo

package main

// C11: texts and token sequences emitted by TLC (Grammar.tla, MC_Front.tla)
// are parsed by the real parser; the real tree, projected structurally, must
// be the tree the reference grammar assigns, and a sequence the reference
// grammar rejects must be rejected.

import (
	"encoding/json"
	"fmt"
	"reflect"
	"strconv"

	"github.com/antonmedv/expr/ast"
	"github.com/antonmedv/expr/parser"
)

type FrontCase struct {
	Kind  string          `json:"kind"` // tree | seq
	Tree  json.RawMessage `json:"tree,omitempty"`
	Ok    *bool           `json:"ok,omitempty"`
	At    int             `json:"at,omitempty"`
	N     int             `json:"n"`
	Texts []string        `json:"texts"`
}

type obj = map[string]interface{}

func projList(ns []ast.Node) []interface{} {
	out := make([]interface{}, 0, len(ns))
	for _, n := range ns {
		out = append(out, projNode(n))
	}
	return out
}

// projNode: the real tree in the vocabulary of Sem.tla / Grammar.tla.
func projNode(n ast.Node) interface{} {
	if n == nil || (reflect.ValueOf(n).Kind() == reflect.Ptr && reflect.ValueOf(n).IsNil()) {
		return obj{"k": "none"}
	}
	switch t := n.(type) {
	case *ast.NilNode:
		return obj{"k": "nil"}
	case *ast.BoolNode:
		return obj{"k": "bool", "b": t.Value}
	case *ast.IntegerNode:
		return obj{"k": "int", "v": float64(t.Value)}
	case *ast.FloatNode:
		return obj{"k": "float", "f": t.Value}
	case *ast.StringNode:
		return obj{"k": "str", "s": t.Value}
	case *ast.IdentifierNode:
		return obj{"k": "id", "name": t.Value}
	case *ast.PointerNode:
		return obj{"k": "ptr"}
	case *ast.UnaryNode:
		return obj{"k": "un", "op": t.Operator, "x": projNode(t.Node)}
	case *ast.BinaryNode:
		return obj{"k": "bin", "op": t.Operator, "l": projNode(t.Left), "r": projNode(t.Right)}
	case *ast.MatchesNode:
		return obj{"k": "bin", "op": "matches", "l": projNode(t.Left), "r": projNode(t.Right)}
	case *ast.PropertyNode:
		return obj{"k": "prop", "x": projNode(t.Node), "name": t.Property, "ns": t.NilSafe}
	case *ast.IndexNode:
		return obj{"k": "idx", "x": projNode(t.Node), "i": projNode(t.Index)}
	case *ast.SliceNode:
		return obj{"k": "slice", "x": projNode(t.Node), "from": projNode(t.From), "to": projNode(t.To)}
	case *ast.MethodNode:
		return obj{"k": "meth", "x": projNode(t.Node), "name": t.Method, "args": projList(t.Arguments), "ns": t.NilSafe}
	case *ast.FunctionNode:
		return obj{"k": "call", "name": t.Name, "args": projList(t.Arguments)}
	case *ast.BuiltinNode:
		if t.Name == "len" && len(t.Arguments) == 1 {
			return obj{"k": "len", "x": projNode(t.Arguments[0])}
		}
		if len(t.Arguments) == 2 {
			if c, ok := t.Arguments[1].(*ast.ClosureNode); ok {
				return obj{"k": "bi", "name": t.Name, "x": projNode(t.Arguments[0]), "body": projNode(c.Node)}
			}
		}
		return obj{"k": "builtin?", "name": t.Name, "args": projList(t.Arguments)}
	case *ast.ClosureNode:
		return obj{"k": "closure", "x": projNode(t.Node)}
	case *ast.ConditionalNode:
		return obj{"k": "cond", "c": projNode(t.Cond), "a": projNode(t.Exp1), "b": projNode(t.Exp2)}
	case *ast.ArrayNode:
		return obj{"k": "arr", "xs": projList(t.Nodes)}
	case *ast.MapNode:
		kn := []interface{}{}
		vs := []interface{}{}
		for _, p := range t.Pairs {
			if pn, ok := p.(*ast.PairNode); ok {
				kn = append(kn, projNode(pn.Key))
				vs = append(vs, projNode(pn.Value))
			} else {
				kn = append(kn, obj{"k": "pair?"})
				vs = append(vs, projNode(p))
			}
		}
		return obj{"k": "map", "kn": kn, "vs": vs}
	case *ast.ConstantNode:
		return obj{"k": "const"}
	case *ast.PairNode:
		return obj{"k": "pair", "key": projNode(t.Key), "value": projNode(t.Value)}
	}
	return obj{"k": fmt.Sprintf("?%T", n)}
}

// sameTree: structural equality of a projected real tree and a tree printed
// by TLC.  A float literal is compared by value (the specification carries
// its text).
func sameTree(real, spec interface{}) bool {
	switch s := spec.(type) {
	case map[string]interface{}:
		r, ok := real.(obj)
		if !ok {
			return false
		}
		if s["k"] == "float" {
			if r["k"] != "float" {
				return false
			}
			txt, _ := s["txt"].(string)
			f, err := strconv.ParseFloat(txt, 64)
			return err == nil && f == r["f"]
		}
		if len(r) != len(s) {
			return false
		}
		for k, sv := range s {
			rv, ok := r[k]
			if !ok || !sameTree(rv, sv) {
				return false
			}
		}
		return true
	case []interface{}:
		r, ok := real.([]interface{})
		if !ok || len(r) != len(s) {
			return false
		}
		for i := range s {
			if !sameTree(r[i], s[i]) {
				return false
			}
		}
		return true
	default:
		return reflect.DeepEqual(real, spec)
	}
}

// parseGuarded: parser.Parse under recover and a watchdog.
func parseGuarded(text string) (tree *parser.Tree, err error, g *Got) {
	pmsg, hang := guarded(func() { tree, err = parser.Parse(text) })
	if pmsg != "" || hang {
		return nil, nil, &Got{Stage: "parse", Panic: pmsg, Hang: hang}
	}
	return tree, err, nil
}

func (r *replayer) frontCase(c FrontCase) {
	var want interface{}
	accept := c.Kind == "tree" || (c.Ok != nil && *c.Ok)
	if accept {
		if err := json.Unmarshal(c.Tree, &want); err != nil {
			r.sum.Infra = append(r.sum.Infra, "bad tree in case: "+err.Error())
			return
		}
	}
	for i, text := range c.Texts {
		tree, err, g := parseGuarded(text)
		r.sum.Executions++
		mode := fmt.Sprintf("text%d", i)
		if g != nil {
			r.sum.Stats["parse panics or hangs (C04's subject)"]++
			continue
		}
		if accept {
			if err != nil {
				r.fail(Failure{Why: "sentence-rejected", Src: text, Mode: mode, Got: &Got{Stage: "parse", Err: err.Error()}, Tags: []string{c.Kind}})
				continue
			}
			got := projNode(tree.Node)
			if !sameTree(got, want) {
				gb, _ := json.Marshal(got)
				r.fail(Failure{Why: "wrong-tree", Src: text, Mode: mode, Got: &Got{Stage: "parse", Err: string(gb)}, Tags: []string{c.Kind, string(c.Tree)}})
			}
		} else {
			if err == nil {
				gb, _ := json.Marshal(projNode(tree.Node))
				r.fail(Failure{Why: "non-sentence-accepted", Src: text, Mode: mode, Got: &Got{Stage: "parse", Err: string(gb)}, Tags: []string{c.Kind}})
			}
		}
	}
	if c.N >= 3 {
		r.sum.Nontrivial++
	}
	if accept {
		r.sum.Stats["sentences"]++
	} else {
		r.sum.Stats["non-sentences"]++
	}
	r.sample(c)
}

package main

// The single projection between Go values and the abstract value universe of
// spec/Prim.tla.  Abs projects a Go value; Concretize builds a Go value of a
// given type from an abstract one.  Both directions are used by every driver.

import (
	"encoding/json"
	"fmt"
	"math"
	"reflect"
	"regexp"
	"sort"
	"strings"

	"github.com/antonmedv/expr/vm"
)

// Val is one abstract value (tagged record, tag-specific fields).
type Val struct {
	T     string          `json:"t"`
	B     *bool           `json:"b,omitempty"`
	K     string          `json:"k,omitempty"`
	N     *int64          `json:"n,omitempty"`
	M     *int64          `json:"m,omitempty"`
	E     *int64          `json:"e,omitempty"`
	S     *string         `json:"s,omitempty"`
	Et    string          `json:"et,omitempty"`
	A     []Val           `json:"a,omitempty"`
	Vt    string          `json:"vt,omitempty"`
	Mk    []string        `json:"mk,omitempty"`
	Mv    []Val           `json:"mv,omitempty"`
	Ty    string          `json:"ty,omitempty"`
	F     map[string]Val  `json:"f,omitempty"`
	IsNil *bool           `json:"isnil,omitempty"`
	To    *Val            `json:"to,omitempty"`
	Name  *string         `json:"name,omitempty"`
	Ks    json.RawMessage `json:"ks,omitempty"`
	Size  *int64          `json:"size,omitempty"`
	ID    string          `json:"id,omitempty"`
	C     string          `json:"c,omitempty"`
}

func pb(b bool) *bool     { return &b }
func pi(i int64) *int64   { return &i }
func ps(s string) *string { return &s }

// The two bytes of the rune U+00E9 (0xC3 0xA9) are the model characters '{' and
// '|' (Prim!Ord): model strings are byte strings, so a value may end in the
// middle of the rune after a slice.  No other model string contains '{' or '|'.
func modelToReal(s string) string {
	if !strings.ContainsAny(s, "{|") {
		return s
	}
	b := []byte(s)
	for i, c := range b {
		switch c {
		case '{':
			b[i] = 0xC3
		case '|':
			b[i] = 0xA9
		}
	}
	return string(b)
}

func realToModel(s string) string {
	b := []byte(s)
	changed := false
	for i, c := range b {
		switch c {
		case 0xC3:
			b[i] = '{'
			changed = true
		case 0xA9:
			b[i] = '|'
			changed = true
		}
	}
	if !changed {
		return s
	}
	return string(b)
}
func opaque(v interface{}) Val {
	return Val{T: "opq", ID: fmt.Sprintf("%T:%v", v, v)}
}

const bigBound = 1 << 29

func absInt(kind string, n int64) Val {
	if n >= bigBound || n <= -bigBound {
		return Val{T: "opq", ID: fmt.Sprintf("%s:%d", kind, n)}
	}
	return Val{T: "int", K: kind, N: pi(n)}
}

func absUint(kind string, n uint64) Val {
	if n >= bigBound {
		return Val{T: "opq", ID: fmt.Sprintf("%s:%d", kind, n)}
	}
	return Val{T: "int", K: kind, N: pi(int64(n))}
}

// absFloat: a float as the dyadic rational m * 2^-e (e <= 12, |m| < 2^29).
func absFloat(kind string, f float64) Val {
	if math.IsNaN(f) || math.IsInf(f, 0) {
		return Val{T: "opq", ID: fmt.Sprintf("%s:%v", kind, f)}
	}
	for e := int64(0); e <= 12; e++ {
		x := f * float64(int64(1)<<uint(e))
		if x == math.Trunc(x) {
			if math.Abs(x) >= bigBound {
				break
			}
			return Val{T: "flt", K: kind, M: pi(int64(x)), E: pi(e)}
		}
	}
	return Val{T: "opq", ID: fmt.Sprintf("%s:%v", kind, f)}
}

// Abs projects a Go value into the universe.
func Abs(v interface{}) Val { return absD(v, 0) }

// absD: Abs with a nesting guard (a value that contains itself - possible only
// when the library aliases a buffer - is projected as opaque instead of
// recursing forever).
func absD(v interface{}, depth int) Val {
	if depth > 24 {
		return opaque("cyclic or too deep")
	}
	if v == nil {
		return Val{T: "nil"}
	}
	switch x := v.(type) {
	case bool:
		return Val{T: "bool", B: pb(x)}
	case string:
		return Val{T: "str", S: ps(realToModel(x))}
	case int:
		return absInt("int", int64(x))
	case int8:
		return absInt("int8", int64(x))
	case int16:
		return absInt("int16", int64(x))
	case int32:
		return absInt("int32", int64(x))
	case int64:
		return absInt("int64", x)
	case uint:
		return absUint("uint", uint64(x))
	case uint8:
		return absUint("uint8", uint64(x))
	case uint16:
		return absUint("uint16", uint64(x))
	case uint32:
		return absUint("uint32", uint64(x))
	case uint64:
		return absUint("uint64", x)
	case float32:
		return absFloat("float32", float64(x))
	case float64:
		return absFloat("float64", x)
	case Obj:
		return absObj(x)
	case *Obj:
		if x == nil {
			return Val{T: "ptr", Ty: "Obj", IsNil: pb(true)}
		}
		o := absObj(*x)
		return Val{T: "ptr", Ty: "Obj", IsNil: pb(false), To: &o}
	case *regexp.Regexp:
		return Val{T: "re", S: ps(x.String())}
	case vm.Call:
		return Val{T: "call", Name: ps(x.Name), Size: pi(int64(x.Size))}
	case map[int]struct{}:
		ks := make([]int, 0, len(x))
		for k := range x {
			ks = append(ks, k)
		}
		sort.Ints(ks)
		raw, _ := json.Marshal(ks)
		return Val{T: "iset", Ks: raw}
	case map[string]struct{}:
		ks := make([]string, 0, len(x))
		for k := range x {
			ks = append(ks, k)
		}
		sort.Strings(ks)
		raw, _ := json.Marshal(ks)
		return Val{T: "sset", Ks: raw}
	}
	rv := reflect.ValueOf(v)
	switch rv.Kind() {
	case reflect.Slice, reflect.Array:
		et := elemName(rv.Type().Elem())
		if et == "" {
			return opaque(v)
		}
		if rv.Kind() == reflect.Slice && rv.IsNil() {
			return Val{T: "arr", Et: "nil[]" + et, A: []Val{}}
		}
		a := make([]Val, rv.Len())
		for i := range a {
			a[i] = absD(rv.Index(i).Interface(), depth+1)
		}
		return Val{T: "arr", Et: et, A: a}
	case reflect.Map:
		if rv.Type().Key().Kind() != reflect.String {
			return opaque(v)
		}
		vt := elemName(rv.Type().Elem())
		if vt == "" {
			return opaque(v)
		}
		if rv.IsNil() {
			return Val{T: "map", Vt: "nil:" + vt, Mk: []string{}, Mv: []Val{}}
		}
		keys := make([]string, 0, rv.Len())
		for _, k := range rv.MapKeys() {
			keys = append(keys, k.String())
		}
		sort.Strings(keys)
		mv := make([]Val, len(keys))
		for i, k := range keys {
			mv[i] = absD(rv.MapIndex(reflect.ValueOf(k).Convert(rv.Type().Key())).Interface(), depth+1)
		}
		return Val{T: "map", Vt: vt, Mk: keys, Mv: mv}
	case reflect.Func:
		if rv.IsNil() {
			return Val{T: "fn", Name: ps("")}
		}
		return Val{T: "fn", Name: ps("func")}
	}
	return opaque(v)
}

func elemName(t reflect.Type) string {
	switch t.Kind() {
	case reflect.Interface:
		return "any"
	case reflect.Int, reflect.Int8, reflect.Int16, reflect.Int32, reflect.Int64,
		reflect.Uint, reflect.Uint8, reflect.Uint16, reflect.Uint32, reflect.Uint64,
		reflect.Float32, reflect.Float64, reflect.String, reflect.Bool:
		return t.Kind().String()
	case reflect.Struct:
		if t == reflect.TypeOf(Obj{}) {
			return "Obj"
		}
	case reflect.Ptr:
		if t == reflect.TypeOf(&Obj{}) {
			return "*Obj"
		}
	case reflect.Slice:
		e := elemName(t.Elem())
		if e != "" {
			return "[]" + e
		}
	}
	return ""
}

func absObj(o Obj) Val {
	return Val{T: "obj", Ty: "Obj", F: map[string]Val{
		"N": Abs(o.N), "Name": Abs(o.Name), "Next": Abs(o.Next), "Tags": Abs(o.Tags),
	}}
}

// HasOpaque reports whether a projected value left the universe.
func (v Val) HasOpaque() bool {
	if v.T == "opq" {
		return true
	}
	for _, x := range v.A {
		if x.HasOpaque() {
			return true
		}
	}
	for _, x := range v.Mv {
		if x.HasOpaque() {
			return true
		}
	}
	for _, x := range v.F {
		if x.HasOpaque() {
			return true
		}
	}
	if v.To != nil && v.To.HasOpaque() {
		return true
	}
	return false
}

// ObsEq: observational equality of two abstract values: numbers equal in kind
// and value, sequences element by element (the Go container type is not
// observable), maps key by key.
func ObsEq(a, b Val) bool {
	if a.T != b.T {
		return false
	}
	switch a.T {
	case "nil":
		return true
	case "bool":
		return *a.B == *b.B
	case "int":
		return a.K == b.K && *a.N == *b.N
	case "flt":
		return a.K == b.K && *a.M == *b.M && *a.E == *b.E
	case "str":
		return *a.S == *b.S
	case "arr":
		if len(a.A) != len(b.A) {
			return false
		}
		for i := range a.A {
			if !ObsEq(a.A[i], b.A[i]) {
				return false
			}
		}
		return true
	case "map":
		if len(a.Mk) != len(b.Mk) {
			return false
		}
		for i := range a.Mk {
			if a.Mk[i] != b.Mk[i] || !ObsEq(a.Mv[i], b.Mv[i]) {
				return false
			}
		}
		return true
	case "obj":
		if len(a.F) != len(b.F) {
			return false
		}
		for k, x := range a.F {
			y, ok := b.F[k]
			if !ok || !ObsEq(x, y) {
				return false
			}
		}
		return true
	case "ptr":
		if *a.IsNil != *b.IsNil {
			return false
		}
		if *a.IsNil {
			return true
		}
		return ObsEq(*a.To, *b.To)
	case "fn":
		return *a.Name == *b.Name
	case "re":
		return *a.S == *b.S
	case "call":
		return *a.Name == *b.Name && *a.Size == *b.Size
	case "iset", "sset":
		return string(a.Ks) == string(b.Ks)
	case "opq":
		return a.ID == b.ID
	}
	return false
}

var (
	tObj    = reflect.TypeOf(Obj{})
	tObjPtr = reflect.TypeOf(&Obj{})
	tAny    = reflect.TypeOf((*interface{})(nil)).Elem()
)

// Concretize builds a Go value of type t (or the natural Go type if t is the
// empty interface) from an abstract value.
func Concretize(v Val, t reflect.Type) (reflect.Value, error) {
	if t.Kind() == reflect.Interface {
		nat, err := natural(v)
		if err != nil {
			return reflect.Value{}, err
		}
		out := reflect.New(t).Elem()
		if nat != nil {
			out.Set(reflect.ValueOf(nat))
		}
		return out, nil
	}
	out := reflect.New(t).Elem()
	switch v.T {
	case "nil":
		return out, nil
	case "bool":
		if t.Kind() != reflect.Bool {
			return out, fmt.Errorf("bool into %v", t)
		}
		out.SetBool(*v.B)
	case "int":
		switch t.Kind() {
		case reflect.Int, reflect.Int8, reflect.Int16, reflect.Int32, reflect.Int64:
			out.SetInt(*v.N)
		case reflect.Uint, reflect.Uint8, reflect.Uint16, reflect.Uint32, reflect.Uint64:
			out.SetUint(uint64(*v.N))
		default:
			return out, fmt.Errorf("int into %v", t)
		}
		if t.Kind().String() != v.K {
			return out, fmt.Errorf("kind %s into %v", v.K, t)
		}
	case "flt":
		if t.Kind() != reflect.Float32 && t.Kind() != reflect.Float64 {
			return out, fmt.Errorf("float into %v", t)
		}
		out.SetFloat(float64(*v.M) / float64(int64(1)<<uint(*v.E)))
	case "str":
		if t.Kind() != reflect.String {
			return out, fmt.Errorf("string into %v", t)
		}
		out.SetString(modelToReal(*v.S))
	case "arr":
		if t.Kind() != reflect.Slice {
			return out, fmt.Errorf("array into %v", t)
		}
		if len(v.Et) >= 3 && v.Et[:3] == "nil" {
			return out, nil
		}
		s := reflect.MakeSlice(t, len(v.A), len(v.A))
		for i, x := range v.A {
			e, err := Concretize(x, t.Elem())
			if err != nil {
				return out, err
			}
			s.Index(i).Set(e)
		}
		out.Set(s)
	case "map":
		if t.Kind() != reflect.Map {
			return out, fmt.Errorf("map into %v", t)
		}
		if len(v.Vt) >= 3 && v.Vt[:3] == "nil" {
			return out, nil
		}
		m := reflect.MakeMap(t)
		for i, k := range v.Mk {
			e, err := Concretize(v.Mv[i], t.Elem())
			if err != nil {
				return out, err
			}
			m.SetMapIndex(reflect.ValueOf(k), e)
		}
		out.Set(m)
	case "obj":
		if t != tObj {
			return out, fmt.Errorf("obj into %v", t)
		}
		for name, fv := range v.F {
			f := out.FieldByName(name)
			if !f.IsValid() {
				return out, fmt.Errorf("no field %s", name)
			}
			e, err := Concretize(fv, f.Type())
			if err != nil {
				return out, err
			}
			f.Set(e)
		}
	case "ptr":
		if t != tObjPtr {
			return out, fmt.Errorf("ptr into %v", t)
		}
		if *v.IsNil {
			return out, nil
		}
		o, err := Concretize(*v.To, tObj)
		if err != nil {
			return out, err
		}
		p := reflect.New(tObj)
		p.Elem().Set(o)
		out.Set(p)
	default:
		return out, fmt.Errorf("cannot concretize %s", v.T)
	}
	return out, nil
}

// natural: the Go value an abstract value denotes when no static type is given.
func natural(v Val) (interface{}, error) {
	switch v.T {
	case "nil":
		return nil, nil
	case "bool":
		return *v.B, nil
	case "str":
		return modelToReal(*v.S), nil
	case "int":
		t := kindType(v.K)
		if t == nil {
			return nil, fmt.Errorf("kind %s", v.K)
		}
		r, err := Concretize(v, t)
		return r.Interface(), err
	case "flt":
		t := kindType(v.K)
		r, err := Concretize(v, t)
		return r.Interface(), err
	case "arr":
		t := sliceType(v.Et)
		if t == nil {
			return nil, fmt.Errorf("elem type %s", v.Et)
		}
		r, err := Concretize(v, t)
		return r.Interface(), err
	case "map":
		var t reflect.Type
		switch v.Vt {
		case "int", "nil:int":
			t = reflect.TypeOf(map[string]int{})
		default:
			t = reflect.TypeOf(map[string]interface{}{})
		}
		r, err := Concretize(v, t)
		return r.Interface(), err
	case "obj":
		r, err := Concretize(v, tObj)
		return r.Interface(), err
	case "ptr":
		r, err := Concretize(v, tObjPtr)
		return r.Interface(), err
	}
	return nil, fmt.Errorf("no natural type for %s", v.T)
}

func kindType(k string) reflect.Type {
	switch k {
	case "int":
		return reflect.TypeOf(int(0))
	case "int8":
		return reflect.TypeOf(int8(0))
	case "int16":
		return reflect.TypeOf(int16(0))
	case "int32":
		return reflect.TypeOf(int32(0))
	case "int64":
		return reflect.TypeOf(int64(0))
	case "uint":
		return reflect.TypeOf(uint(0))
	case "uint8":
		return reflect.TypeOf(uint8(0))
	case "uint16":
		return reflect.TypeOf(uint16(0))
	case "uint32":
		return reflect.TypeOf(uint32(0))
	case "uint64":
		return reflect.TypeOf(uint64(0))
	case "float32":
		return reflect.TypeOf(float32(0))
	case "float64":
		return reflect.TypeOf(float64(0))
	}
	return nil
}

func sliceType(et string) reflect.Type {
	if len(et) > 5 && et[:5] == "nil[]" {
		et = et[5:]
	}
	switch et {
	case "any":
		return reflect.TypeOf([]interface{}{})
	case "string":
		return reflect.TypeOf([]string{})
	case "bool":
		return reflect.TypeOf([]bool{})
	case "Obj":
		return reflect.TypeOf([]Obj{})
	case "*Obj":
		return reflect.TypeOf([]*Obj{})
	}
	if t := kindType(et); t != nil {
		return reflect.SliceOf(t)
	}
	return nil
}

------------------------------- MODULE Lexer -------------------------------
(***************************************************************************)
(* parser/lexer as a state machine (C12, C04).  The state is the lexer     *)
(* structure of lexer.go - input, start, end, width, loc, prev, startLoc,  *)
(* tokens, first error - plus the mode: which state function runs next     *)
(* (root, number, dot, nilsafe, identifier, not).  One step of LNext is    *)
(* one call of a state function, built from the primitives next / backup / *)
(* peek / accept / acceptRun / acceptWord / emit / ignore exactly as       *)
(* written in lexer.go and state.go.  `end` counts runes, not bytes: the   *)
(* observable results (token kind, value, location) do not depend on byte  *)
(* offsets.                                                                *)
(*                                                                         *)
(* Invariants (the position claims of C12, checked in every state):        *)
(*   LocInv       while input remains, loc is the position of the rune at  *)
(*                `end` computed from the text alone                       *)
(*   TokenLocInv  every token's location is the position of its first rune *)
(*   ValueInv     the value of an identifier, number or operator token is  *)
(*                the text it was read from                                *)
(***************************************************************************)
EXTENDS Lexical

VARIABLES input, lx, mode
lvars == <<input, lx, mode>>

EOFR == "EOF"
LF == Sym("LF")
Loc(line, col) == [line |-> line, col |-> col]

L0 == [start |-> 0, end |-> 0, width |-> 0, loc |-> Loc(1, 0), prev |-> Loc(1, 0), startLoc |-> Loc(1, 0),
       toks |-> <<>>, err |-> "", errloc |-> Loc(0, 0)]

N == Len(input)

(* the primitives; results carry the new lexer record *)
NextR(l) ==
  IF l.end >= N THEN [l |-> [l EXCEPT !.width = 0], r |-> EOFR]
  ELSE LET c == input[l.end + 1]
       IN [l |-> [l EXCEPT !.width = 1, !.end = @ + 1, !.prev = l.loc,
                           !.loc = IF c = LF THEN Loc(l.loc.line + 1, 0) ELSE Loc(l.loc.line, l.loc.col + 1)],
           r |-> c]
Backup(l) == [l EXCEPT !.end = @ - l.width, !.loc = l.prev]
PeekR(l) == LET n == NextR(l) IN [l |-> Backup(n.l), r |-> n.r]
Accept(l, set) == LET n == NextR(l) IN IF n.r \in set THEN [l |-> n.l, ok |-> TRUE] ELSE [l |-> Backup(n.l), ok |-> FALSE]
RECURSIVE AcceptRun(_, _)
AcceptRun(l, set) == LET n == NextR(l) IN IF n.r \in set THEN AcceptRun(n.l, set) ELSE Backup(n.l)
Word(l) == SubSeq(input, l.start + 1, l.end)
Emit(l, kind, val) ==
  [l EXCEPT !.toks = Append(@, [k |-> kind, v |-> val, line |-> l.startLoc.line, col |-> l.startLoc.col, at |-> l.start]),
            !.start = l.end, !.startLoc = l.loc]
EmitEOF(l) ==
  [l EXCEPT !.toks = Append(@, [k |-> "EOF", v |-> <<>>, line |-> l.prev.line, col |-> l.prev.col, at |-> l.end]),
            !.start = l.end, !.startLoc = l.loc]
Ignore(l) == [l EXCEPT !.start = l.end, !.startLoc = l.loc]
Error(l, msg) == IF l.err = "" THEN [l EXCEPT !.err = msg, !.errloc = l.loc] ELSE l

DecDigits == {"0", "1", "2", "3", "4", "5", "6", "7", "8", "9", "_"}
HexDigitSet == DecDigits \cup {"a", "b", "c", "d", "e", "f", "A", "B", "C", "D", "E", "F"}
OctDigits == {"0", "1", "2", "3", "4", "5", "6", "7", "_"}
BinDigits == {"0", "1", "_"}
IsAlnumR(r) == r # EOFR /\ IsAlnum(r)
IsSpaceR(r) == r # EOFR /\ IsSpaceCh(r)

---------------------------------------------------------------------------
(* string literals: scanString / scanEscape / scanDigits *)
DigitValR(r) == IF r = EOFR \/ Len(r) # 1 THEN 16
                ELSE IF IsDigit(r) THEN Code(r) - 48
                ELSE IF r \in {"a", "b", "c", "d", "e", "f"} THEN Code(r) - 87
                ELSE IF r \in {"A", "B", "C", "D", "E", "F"} THEN Code(r) - 55 ELSE 16

RECURSIVE ScanDigits(_, _, _, _)
(* returns [l, r]: the lexer and the current rune *)
ScanDigits(l, ch, base, n) ==
  IF n > 0 /\ DigitValR(ch) < base
  THEN LET nx == NextR(l) IN ScanDigits(nx.l, nx.r, base, n - 1)
  ELSE [l |-> (IF n > 0 THEN Error(l, "invalid char escape") ELSE l), r |-> ch]

ScanEscape(l, quote) ==
  LET n1 == NextR(l)
      ch == n1.r
  IN IF ch \in {"a", "b", "f", "n", "r", "t", "v", BSL, quote} THEN NextR(n1.l)
     ELSE IF ch \in {"0", "1", "2", "3", "4", "5", "6", "7"} THEN ScanDigits(n1.l, ch, 8, 3)
     ELSE IF ch = "x" THEN LET n2 == NextR(n1.l) IN ScanDigits(n2.l, n2.r, 16, 2)
     ELSE IF ch = "u" THEN LET n2 == NextR(n1.l) IN ScanDigits(n2.l, n2.r, 16, 4)
     ELSE IF ch = "U" THEN LET n2 == NextR(n1.l) IN ScanDigits(n2.l, n2.r, 16, 8)
     ELSE [l |-> Error(n1.l, "invalid char escape"), r |-> ch]

RECURSIVE ScanLoop(_, _, _)
ScanLoop(l, ch, quote) ==
  IF ch = quote THEN l
  ELSE IF ch = LF \/ ch = EOFR THEN Error(l, "literal not terminated")
  ELSE IF l.err # "" THEN l            \* (the code scans on; the first error already decides the outcome)
  ELSE IF ch = BSL THEN LET e == ScanEscape(l, quote) IN ScanLoop(e.l, e.r, quote)
  ELSE LET nx == NextR(l) IN ScanLoop(nx.l, nx.r, quote)
ScanString(l, quote) == LET n1 == NextR(l) IN ScanLoop(n1.l, n1.r, quote)

---------------------------------------------------------------------------
(* numbers: scanNumber; returns [l, ok] *)
ScanNumber(l0) ==
  LET z == Accept(l0, {"0"})
      x == IF z.ok THEN Accept(z.l, {"x", "X"}) ELSE [l |-> z.l, ok |-> FALSE]
      o == IF z.ok /\ ~x.ok THEN Accept(x.l, {"o", "O"}) ELSE [l |-> x.l, ok |-> FALSE]
      b == IF z.ok /\ ~x.ok /\ ~o.ok THEN Accept(o.l, {"b", "B"}) ELSE [l |-> o.l, ok |-> FALSE]
      digits == IF x.ok THEN HexDigitSet ELSE IF o.ok THEN OctDigits ELSE IF b.ok THEN BinDigits ELSE DecDigits
      l1 == AcceptRun(b.l, digits)
      d == Accept(l1, {"."})
  IN IF d.ok /\ PeekR(d.l).r = "."
     THEN [l |-> [PeekR(d.l).l EXCEPT !.loc = l1.loc, !.prev = l1.prev, !.end = l1.end], ok |-> TRUE]   \* `1..2`: the range operator
     ELSE LET l2 == IF d.ok THEN AcceptRun(PeekR(d.l).l, digits) ELSE d.l
              e == Accept(l2, {"e", "E"})
              l3 == IF e.ok THEN AcceptRun(Accept(e.l, {"+", "-"}).l, digits) ELSE e.l
              p == PeekR(l3)
          IN IF IsAlnumR(p.r) THEN [l |-> NextR(p.l).l, ok |-> FALSE] ELSE [l |-> p.l, ok |-> TRUE]

---------------------------------------------------------------------------
(* acceptWord (with white space skipped and any non-identifier rune as terminator) *)
RECURSIVE SkipSpaces(_)
SkipSpaces(l) == LET p == PeekR(l) IN IF IsSpaceR(p.r) THEN SkipSpaces(NextR(p.l).l) ELSE p.l
RECURSIVE MatchWord(_, _, _)
MatchWord(l, word, i) ==
  IF i > Len(word) THEN [l |-> l, ok |-> TRUE]
  ELSE LET n == NextR(l) IN IF n.r = word[i] THEN MatchWord(n.l, word, i + 1) ELSE [l |-> n.l, ok |-> FALSE]
AcceptWord(l, word) ==
  LET restore(x) == [x EXCEPT !.end = l.end, !.loc = l.loc, !.prev = l.prev]
      s == SkipSpaces(l)
      m == MatchWord(s, word, 1)
  IN IF ~m.ok THEN [l |-> restore(m.l), ok |-> FALSE]
     ELSE LET p == PeekR(m.l)
          IN IF IsAlnumR(p.r) THEN [l |-> restore(p.l), ok |-> FALSE] ELSE [l |-> p.l, ok |-> TRUE]

---------------------------------------------------------------------------
(* the state functions *)
Go(l, m) == lx' = l /\ mode' = (IF l.err # "" THEN "done" ELSE m) /\ UNCHANGED input

KeywordOps == {<<"i", "n">>, <<"o", "r">>, <<"a", "n", "d">>, <<"m", "a", "t", "c", "h", "e", "s">>,
               <<"c", "o", "n", "t", "a", "i", "n", "s">>, <<"s", "t", "a", "r", "t", "s", "W", "i", "t", "h">>,
               <<"e", "n", "d", "s", "W", "i", "t", "h">>}

Root ==
  /\ mode = "root"
  /\ LET n == NextR(lx)
         l == n.l
         r == n.r
     IN CASE r = EOFR -> Go(EmitEOF(l), "done")
          [] IsSpaceR(r) -> Go(Ignore(l), "root")
          [] r \in {SQ, DQ} ->
               LET s == ScanString(l, r)
                   w == SubSeq(input, s.start + 1, s.end)
                   u == IF s.err # "" \/ Len(w) < 2 THEN [ok |-> FALSE, out |-> FALSE] ELSE Unquote(w)
               IN IF s.err # "" THEN Go(s, "done")
                  ELSE IF ~u.ok THEN Go(Error(s, (IF u.out THEN "outside" ELSE "unable to unescape string")), "done")
                  ELSE Go(Emit(s, "String", u.v), "root")
          [] r # EOFR /\ IsDigit(r) -> Go(Backup(l), "number")
          [] r = "?" -> IF PeekR(l).r = "." THEN Go(PeekR(l).l, "nilsafe") ELSE Go(Emit(PeekR(l).l, "Operator", Word(PeekR(l).l)), "root")
          [] r \in {"(", "[", "{", ")", "]", "}"} -> Go(Emit(l, "Bracket", Word(l)), "root")
          [] r \in {"#", ",", ":", "%", "+", "-", "/"} -> Go(Emit(l, "Operator", Word(l)), "root")
          [] r \in {"&", "|", "!", "=", "*", "<", ">"} ->
               LET a == Accept(l, {"&", "|", "=", "*"}).l IN Go(Emit(a, "Operator", Word(a)), "root")
          [] r = "." -> Go(Backup(l), "dot")
          [] IsAlnumR(r) -> Go(Backup(l), "identifier")
          [] OTHER -> Go(Error(l, "unrecognized character"), "done")

Number ==
  /\ mode = "number"
  /\ LET s == ScanNumber(lx)
     IN IF ~s.ok THEN Go(Error(s.l, "bad number syntax"), "done")
        ELSE Go(Emit(s.l, "Number", Word(s.l)), "root")

Dot ==
  /\ mode = "dot"
  /\ LET l == NextR(lx).l
         d == Accept(l, {"0", "1", "2", "3", "4", "5", "6", "7", "8", "9"})
     IN IF d.ok THEN Go(Backup(d.l), "number")
        ELSE LET a == Accept(d.l, {"."}).l IN Go(Emit(a, "Operator", Word(a)), "root")

NilSafe ==
  /\ mode = "nilsafe"
  /\ LET l == NextR(lx).l
         a == Accept(l, {"?", "."}).l
     IN Go(Emit(a, "Operator", Word(a)), "root")

RECURSIVE Absorb(_)
Absorb(l) == LET n == NextR(l) IN IF IsAlnumR(n.r) THEN Absorb(n.l) ELSE Backup(n.l)
Identifier ==
  /\ mode = "identifier"
  /\ LET l == Absorb(lx)
         w == Word(l)
     IN IF w = <<"n", "o", "t">> THEN Go(l, "not")
        ELSE IF w \in KeywordOps THEN Go(Emit(l, "Operator", w), "root")
        ELSE Go(Emit(l, "Identifier", w), "root")

Not ==
  /\ mode = "not"
  /\ LET a == AcceptWord(lx, <<"i", "n">>)
     IN IF a.ok THEN Go(Emit(a.l, "Operator", <<"n", "o", "t", " ", "i", "n">>), "root")
        ELSE Go(Emit(a.l, "Operator", <<"n", "o", "t">>), "root")

LStep == Root \/ Number \/ Dot \/ NilSafe \/ Identifier \/ Not

---------------------------------------------------------------------------
(* the position of the rune at index i (0-based) computed from the text alone *)
PosAt(i) == LET p == Advance(SubSeq(input, 1, i), 1, 0) IN Loc(p[1], p[2])

LocInv == (mode # "done" /\ lx.end < N) => lx.loc = PosAt(lx.end)
TokenLocInv == \A i \in 1..Len(lx.toks) :
                 lx.toks[i].k # "EOF" => Loc(lx.toks[i].line, lx.toks[i].col) = PosAt(lx.toks[i].at)
ValueInv == \A i \in 1..Len(lx.toks) :
              LET t == lx.toks[i]
                  next == IF i < Len(lx.toks) THEN lx.toks[i + 1].at ELSE lx.end
              IN (t.k \in {"Identifier", "Number", "Bracket"} \/ (t.k = "Operator" /\ t.v # <<"n", "o", "t", " ", "i", "n">>))
                   => /\ t.v = SubSeq(input, t.at + 1, t.at + Len(t.v))
                      /\ t.at + Len(t.v) <= next
(* tokens are emitted in text order and never overlap *)
OrderInv == \A i \in 1..(Len(lx.toks) - 1) : lx.toks[i].at < lx.toks[i + 1].at \/ lx.toks[i + 1].k = "EOF"

(* the outcome of lexing: what Lex returns *)
Outcome == IF lx.err # "" THEN [ok |-> FALSE, err |-> lx.err, line |-> lx.errloc.line, col |-> lx.errloc.col]
           ELSE [ok |-> TRUE, toks |-> [i \in 1..Len(lx.toks) |->
                                         [k |-> lx.toks[i].k, v |-> lx.toks[i].v, line |-> lx.toks[i].line, col |-> lx.toks[i].col]]]
=============================================================================

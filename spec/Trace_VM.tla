------------------------------ MODULE Trace_VM ------------------------------
(***************************************************************************)
(* Trace validation: runs of the real VM, recorded by the verif hook (one   *)
(* event per executed instruction, after the state change), are replayed   *)
(* through the machine model VM!Step on the REAL program's raw bytes and   *)
(* constants.  An event is accepted iff the model, in the state reached so *)
(* far, executes the instruction at the logged pp and reaches a state      *)
(* whose ip, stack depth, scope depth, allocation counter and top of stack *)
(* equal the logged ones.  Step is a function, so the search is linear.    *)
(*                                                                         *)
(* Each line of the trace file is one run:                                 *)
(*  [run, src, prog:[code,consts], env, budget, reuse, memory0, depth0,    *)
(*   scopes0, events: <<[pp,op,ip,depth,scopes,memory,hastop,top]>>,       *)
(*   end:[ok,out,err], calls, poststack, postscope, wfonly]                *)
(* Consecutive lines with reuse = TRUE were executed on the same VM value: *)
(* the model then continues from the machine state the previous run left   *)
(* (C07).                                                                  *)
(*                                                                         *)
(* A rejected event is printed as a JSON line (kind "mismatch") and the    *)
(* validation goes on with the next run, so one rejection never hides the  *)
(* rest of the trace.  A model step that leaves the value universe         *)
(* (class "outside") abandons the run without judgement.                   *)
(***************************************************************************)
EXTENDS VM, Json

CONSTANT TraceFile
Trace == ndJsonDeserialize(TraceFile)

VARIABLES l,      \* index of the run being validated
          ph,     \* "begin" | "steps" | "done"
          j,      \* events of run l consumed so far
          m,      \* machine state of the model
          nbad    \* runs rejected so far
tvars == <<l, ph, j, m, nbad>>

Rn  == Trace[l]
P   == [code |-> Rn.prog.code, consts |-> Rn.prog.consts]
Rho == EnvOf(Rn.env)

Report(kind, field, want, got) ==
  PrintT(ToJson([kind |-> kind, run |-> Rn.run, src |-> Rn.src, mode |-> Rn.mode, at |-> j, field |-> field,
                 want |-> want, got |-> got]))

NextRun(bad) == /\ l' = l + 1 /\ ph' = "begin" /\ j' = 0 /\ nbad' = nbad + (IF bad THEN 1 ELSE 0)

TInit == l = 1 /\ ph = "begin" /\ j = 0 /\ m = Fresh(0) /\ nbad = 0

(* the prologue: what VM.Run re-initialises, checked against the logged entry state *)
TBegin ==
  /\ l <= Len(Trace) /\ ph = "begin"
  /\ LET s == BeginRun(IF Rn.reuse THEN m ELSE Fresh(Rn.budget), Rn.budget, {})
     IN IF ~WellFormed(P)
        THEN Report("mismatch", "ill-formed-program", 0, 0) /\ m' = s /\ NextRun(TRUE)
        ELSE IF Rn.wfonly                       \* a program without a run: only its well-formedness is judged
        THEN m' = s /\ NextRun(FALSE)
        ELSE IF s.memory # Rn.memory0
        THEN Report("mismatch", "memory-at-entry", s.memory, Rn.memory0) /\ m' = s /\ NextRun(TRUE)
        ELSE IF Rn.depth0 # 0 \/ Rn.scopes0 # 0
        THEN Report("mismatch", "stack-or-scopes-at-entry", 0, Rn.depth0 + Rn.scopes0) /\ m' = s /\ NextRun(TRUE)
        ELSE m' = s /\ ph' = "steps" /\ UNCHANGED <<l, j, nbad>>

FirstDiff(s, e) ==
  CASE s.status = "underflow" -> <<"underflow", 0, 0>>
    [] s.status # "run" -> <<"model-fails:" \o s.errc, 0, 0>>
    [] s.pp # e.pp -> <<"pp", s.pp, e.pp>>
    [] OpName(P.code[e.pp + 1]) # e.op -> <<"op", 0, 0>>
    [] s.ip # e.ip -> <<"ip", s.ip, e.ip>>
    [] Depth(s) # e.depth -> <<"depth", Depth(s), e.depth>>
    [] Len(s.scopes) # e.scopes -> <<"scopes", Len(s.scopes), e.scopes>>
    [] s.memory # e.memory -> <<"memory", s.memory, e.memory>>
    [] e.hastop /\ Depth(s) > 0 /\ TopV(s) # e.top -> <<"top", 0, 0>>
    [] OTHER -> <<"", 0, 0>>

TStep ==
  /\ l <= Len(Trace) /\ ph = "steps" /\ j < Len(Rn.events)
  /\ LET e == Rn.events[j + 1]
     IN IF m.ip >= Len(P.code)
        THEN Report("mismatch", "model-finished-early", m.ip, e.pp) /\ UNCHANGED m /\ NextRun(TRUE)
        ELSE LET s == Step(m, P, Rho, {})
                 d == FirstDiff(s, e)
             IN IF s.status = "err" /\ s.errc = "outside"
                THEN m' = s /\ NextRun(FALSE)
                ELSE IF d[1] # ""
                THEN Report("mismatch", d[1], d[2], d[3]) /\ m' = s /\ NextRun(TRUE)
                ELSE m' = s /\ j' = j + 1 /\ UNCHANGED <<l, ph, nbad>>

TEnd ==
  /\ l <= Len(Trace) /\ ph = "steps" /\ j = Len(Rn.events)
  /\ IF Rn.end.ok
     THEN IF m.ip < Len(P.code)
          THEN Report("mismatch", "real-finished-early", m.ip, Len(P.code)) /\ UNCHANGED m /\ NextRun(TRUE)
          ELSE LET s == Finish(m)
               IN IF s.out # Rn.end.out
                  THEN Report("mismatch", "result", 0, 0) /\ m' = s /\ NextRun(TRUE)
                  ELSE IF ~CleanExit(s) \/ Rn.poststack > 0 \/ Rn.postscope
                  THEN Report("mismatch", "unclean-exit", Len(s.stack) + Len(s.scopes), Rn.poststack) /\ m' = s /\ NextRun(TRUE)
                  ELSE IF s.calls # Rn.calls
                  THEN Report("mismatch", "calls", Len(s.calls), Len(Rn.calls)) /\ m' = s /\ NextRun(TRUE)
                  ELSE m' = s /\ NextRun(FALSE)
     ELSE IF m.ip >= Len(P.code)
          THEN Report("mismatch", "real-fails-model-finished", 0, 0) /\ UNCHANGED m /\ NextRun(TRUE)
          ELSE LET s == Step(m, P, Rho, {})
               IN IF s.status = "underflow"
                  THEN Report("mismatch", "underflow", 0, 0) /\ m' = s /\ NextRun(TRUE)
                  ELSE IF s.status = "run"
                  THEN Report("mismatch", "real-fails-model-continues", 0, 0) /\ m' = s /\ NextRun(TRUE)
                  ELSE m' = s /\ NextRun(FALSE)

TDone == /\ l = Len(Trace) + 1 /\ ph = "begin"
         /\ PrintT(ToJson([kind |-> "done", runs |-> Len(Trace), rejected |-> nbad]))
         /\ ph' = "done" /\ UNCHANGED <<l, j, m, nbad>>

TNext == TBegin \/ TStep \/ TEnd \/ TDone
TSpec == TInit /\ [][TNext]_tvars

(* state invariants evaluated on every state of every validated run (C05, C06) *)
TNoUnderflow == m.status # "underflow" \/ ph = "begin"
TMemoryNonNegative == m.memory >= 0
=============================================================================

------------------------------- MODULE MC_VM -------------------------------
(***************************************************************************)
(* Model checking the design: for every expression the derivation machine  *)
(* reaches and every environment assignment, the compiled program run on   *)
(* the machine model yields exactly what the reference semantics assigns   *)
(* (Conforms), the emitted program is well-formed, no run pops an empty    *)
(* stack, and a successful run ends with exactly the result and no open    *)
(* scope (C01 in-model, C05, C06, C18).                                    *)
(*                                                                         *)
(* OperandMod = 65536 is the real operand range.  The small-scope          *)
(* configurations use OperandMod = 32 or 64, so that TLC reaches programs  *)
(* whose jump distance does not fit the operand: with RejectOverflow (the  *)
(* design: such a program is a compile error) all invariants hold; without *)
(* it (offsets silently truncated, as the pinned compiler did) TLC finds   *)
(* ill-formed programs - the shapes are then inflated to real size by the  *)
(* harness (check C05, stage "oversize").                                  *)
(*                                                                         *)
(* EmitMode "progs" additionally prints, per expression, the program the   *)
(* specification's compiler emits, so that the harness can compare it with *)
(* the bytes the real compiler emits (a drift diagnostic, not a verdict).  *)
(***************************************************************************)
EXTENDS MC_Expr, Compiler, VMShape

CONSTANTS Mode,            \* "typed" | "untyped"
          RejectOverflow   \* BOOLEAN

Prog(t) == CompileProgram(t, Mode, "")
Accepted(t) == ~(RejectOverflow /\ CompileRejects(t, Mode))

SameObs(a, b) == /\ a.ok = b.ok
                 /\ a.ok => a.v = b.v
                 /\ a.calls = b.calls
                 /\ a.need = b.need

Lim(b) == IF b = 0 THEN DefaultBudget ELSE b
RunObs(t, asg, b) == VMOutcome(RunToEnd(Prog(t), EnvOf(asg), Lim(b), {}))
RefObs(t, asg, b) == Outcome(t, EnvOf(asg), Lim(b), {})

InUniverse(o) == o.ok \/ o.c # "outside"

(* a run that fails for the budget has created what the reference counts up  *)
(* to the refusing allocation; the counters are compared on success          *)
Conforms ==
  (Complete /\ Accepted(Tree)) =>
    \A asg \in Assignments(Mentions(Tree)) : \A b \in F_Budgets :
      LET ref == RefObs(Tree, asg, b)
          run == RunObs(Tree, asg, b)
      IN InUniverse(ref) => /\ run.ok = ref.ok
                            /\ run.ok => (run.v = ref.v /\ run.need = ref.need)
                            /\ run.calls = ref.calls

(* C06 in-model: a successful run has created fewer elements than the budget *)
BudgetBounds ==
  (Complete /\ Accepted(Tree)) =>
    \A asg \in Assignments(Mentions(Tree)) : \A b \in F_Budgets :
      LET run == RunObs(Tree, asg, b)
      IN run.ok => run.need < Lim(b)

ProgramWellFormed == (Complete /\ Accepted(Tree)) => WellFormed(Prog(Tree))

RunsClean ==
  (Complete /\ Accepted(Tree)) =>
    \A asg \in Assignments(Mentions(Tree)) :
      LET s == RunToEnd(Prog(Tree), EnvOf(asg), DefaultBudget, {})
      IN NoUnderflow(s) /\ CleanExit(s) /\ MemoryNonNegative(s) /\ s.status # "fuel"

(* The stack-shape machine (VMShape.tla) abstracts the value-level machine: every step VM!Step takes from a   *)
(* running state is, projected on (ip, depth, scope depth), a ShapeNext step, and the value-level machine      *)
(* underflows only where the shape machine says the instruction needs more than the stack holds.  This is what *)
(* makes a trace accepted by Trace_Shape a trace the value-level design could produce, as far as C05 goes.     *)
ShapeAbstracts ==
  (Complete /\ Accepted(Tree)) =>
    \A asg \in Assignments(Mentions(Tree)) :
      ShapeRun(BeginRun(Fresh(DefaultBudget), DefaultBudget, {}), Prog(Tree), EnvOf(asg), 5000)

(* C05 "oversize": every expression that contains the long literal, with what *)
(* the small-scope compiler as designed does with it (ovf: rejected because a *)
(* jump offset does not fit) and the reference outcomes of its runs.  The    *)
(* harness inflates the literal so that the same jumps overflow for real.    *)
RECURSIVE HasBig(_)
HasBig(t) == t = BigArr \/ \E i \in 1..Len(Kids(t)) : HasBig(Kids(t)[i])
OvCase == [src |-> Src(Tree), ty |-> TreeTy, n |-> n, ovf |-> CompileRejects(Tree, Mode), runs |-> Runs(Tree)]
EmitOv == (Complete /\ EmitMode = "ovcases" /\ HasBig(Tree)) => PrintT(ToJson(OvCase))

ProgCase == [src |-> Src(Tree), mode |-> Mode, prog |-> Prog(Tree)]
EmitProg == Complete => (EmitMode = "progs" => PrintT(ToJson(ProgCase)))
=============================================================================

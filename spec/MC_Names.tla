------------------------------ MODULE MC_Names ------------------------------
(***************************************************************************)
(* Environment types for C16: every legal struct type of up to MaxMembers  *)
(* members drawn from a pool of own fields (exported and unexported, two   *)
(* types per name so that shadowing changes the type) and embedded inner   *)
(* types (by value and by pointer, with their own fields, methods and      *)
(* embeddings: Resolve!InnerTypes), in every order, with a method M on a   *)
(* value or pointer receiver or without one.  For each type and each name  *)
(* of Names the case carries what Go's selector rule says (Resolve!Lookup) *)
(* and whether the name is usable on an environment passed by value and by *)
(* pointer.  Invariant ShadowingIsShallowest states the rule's key fact on *)
(* every generated type.                                                   *)
(***************************************************************************)
EXTENDS Resolve, Json

CONSTANTS MaxMembers, NamesEmit

VARIABLE ms
Pool == {Field("A", "int"), Field("A", "string"), Field("B", "int"), Field("c", "int"),
         Embed("I1", FALSE), Embed("I2", FALSE), Embed("I3", FALSE), Embed("I4", FALSE), Embed("D", FALSE), Embed("E", FALSE),
         Embed("I1", TRUE), Embed("I3", TRUE), Embed("I4", TRUE), Embed("D", TRUE), Embed("I5", FALSE), Embed("u1", FALSE)}
Names == {"A", "B", "c", "M", "Z", "I1", "I3", "D", "u1", "Q"}

Init == ms = <<>>
Next == /\ Len(ms) < MaxMembers
        /\ \E m \in Pool : Legal(Append(ms, m)) /\ ms' = Append(ms, m)

(* an own field or method always wins over anything promoted *)
ShadowingIsShallowest ==
  \A mth \in {"none", "val", "ptr"} : \A nm \in Names :
    LET s == Shape(ms, mth)
    IN (\E i \in 1..Len(ms) : ms[i].k = "field" /\ ms[i].name = nm)
         => (Lookup(s, nm).res = "field" /\ Lookup(s, nm).ty = (CHOOSE t \in {"int", "string"} :
                                                                 \E i \in 1..Len(ms) : ms[i].k = "field" /\ ms[i].name = nm /\ ms[i].ty = t))

NameCase(mth) ==
  LET s == Shape(ms, mth)
  IN [members |-> ms, method |-> mth,
      names |-> [nm \in Names |-> [look |-> Lookup(s, nm), fld |-> LookupField(s, nm).res = "field" /\ IsExported(nm), byval |-> Usable(s, nm, FALSE), byptr |-> Usable(s, nm, TRUE)]]]
MapCase(s) == [kind |-> "map", named |-> s.named, elem |-> s.elem, method |-> s.method,
               names |-> [nm \in MapNames |-> MapLookup(s, nm)]]
EmitMaps == (ms = <<>> /\ NamesEmit = "cases") => \A s \in {x \in MapShapes : LegalMapShape(x)} : PrintT(ToJson(MapCase(s)))
EmitNames == (Len(ms) >= 1 /\ NamesEmit = "cases") => \A mth \in {"none", "val", "ptr"} : PrintT(ToJson(NameCase(mth)))
=============================================================================

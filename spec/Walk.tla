-------------------------------- MODULE Walk --------------------------------
(***************************************************************************)
(* AST traversal (C10).  The state of a traversal is the sequence of       *)
(* visitor events so far; WalkSeq(t) is the behaviour the documentation    *)
(* promises for ast.Walk: every node is entered once and exited once, a    *)
(* parent is entered before and exited after its children, children in     *)
(* source order.  Nodes are labelled with the node kind of package ast     *)
(* (the parser's tree for the text Src(t): `matches` is a MatchesNode, a   *)
(* builtin's predicate sits in a ClosureNode, a map literal is a MapNode   *)
(* of PairNodes whose key is a StringNode, `len` is a BuiltinNode).        *)
(*                                                                         *)
(* Patch(t) is the tree a visitor produces that replaces every integer     *)
(* literal 1 by 2 on Exit: a replacement takes effect wherever the literal *)
(* occurs (sliced or indexed operand, closure body, argument, map value,   *)
(* branch), so compiling Src(t) under that visitor must behave as          *)
(* compiling Src(Patch(t)).                                                *)
(***************************************************************************)
EXTENDS Sem

Kind(t) ==
  CASE t.k = "nil" -> "Nil" [] t.k = "bool" -> "Bool" [] t.k = "int" -> "Integer" [] t.k = "float" -> "Float"
    [] t.k = "str" -> "String" [] t.k = "id" -> "Identifier" [] t.k = "ptr" -> "Pointer"
    [] t.k = "un" -> "Unary"
    [] t.k = "bin" -> IF t.op = "matches" THEN "Matches" ELSE "Binary"
    [] t.k = "prop" -> "Property" [] t.k = "idx" -> "Index" [] t.k = "slice" -> "Slice"
    [] t.k = "meth" -> "Method" [] t.k = "call" -> "Function"
    [] t.k \in {"len", "bi"} -> "Builtin"
    [] t.k = "cond" -> "Conditional" [] t.k = "arr" -> "Array" [] t.k = "map" -> "Map"

Leaf(kind) == <<"+" \o kind, "-" \o kind>>

RECURSIVE WalkSeq(_), WalkList(_, _), WalkPairs(_, _)
WalkList(ts, i) == IF i > Len(ts) THEN <<>> ELSE WalkSeq(ts[i]) \o WalkList(ts, i + 1)
WalkPairs(vs, i) == IF i > Len(vs) THEN <<>>
                    ELSE <<"+Pair">> \o Leaf("String") \o WalkSeq(vs[i]) \o <<"-Pair">> \o WalkPairs(vs, i + 1)
WalkSeq(t) ==
  <<"+" \o Kind(t)>>
  \o (CASE t.k = "bi"  -> WalkSeq(t.x) \o <<"+Closure">> \o WalkSeq(t.body) \o <<"-Closure">>
        [] t.k = "map" -> WalkPairs(t.vs, 1)
        [] OTHER -> WalkList(Kids(t), 1))
  \o <<"-" \o Kind(t)>>

(* number of nodes of the parser's tree: each entered once and exited once *)
EnterCount(t) == Cardinality({i \in 1..Len(WalkSeq(t)) : SubSeq(WalkSeq(t)[i], 1, 1) = "+"})

RECURSIVE Patch(_)
PatchList(ts) == [i \in 1..Len(ts) |-> Patch(ts[i])]
Patch(t) ==
  CASE t.k = "int" -> IF t.v = 1 THEN NInt(2) ELSE t
    [] t.k \in {"nil", "bool", "float", "str", "id", "ptr", "none"} -> t
    [] t.k = "un"   -> NUn(t.op, Patch(t.x))
    [] t.k = "bin"  -> NBin(t.op, Patch(t.l), Patch(t.r))
    [] t.k = "prop" -> NProp(Patch(t.x), t.name, t.ns)
    [] t.k = "idx"  -> NIdx(Patch(t.x), Patch(t.i))
    [] t.k = "slice" -> NSlice(Patch(t.x), Patch(t.from), Patch(t.to))
    [] t.k = "meth" -> NMeth(Patch(t.x), t.name, PatchList(t.args), t.ns)
    [] t.k = "call" -> NCall(t.name, PatchList(t.args))
    [] t.k = "len"  -> NLen(Patch(t.x))
    [] t.k = "bi"   -> NBi(t.name, Patch(t.x), Patch(t.body))
    [] t.k = "cond" -> NCond(Patch(t.c), Patch(t.a), Patch(t.b))
    [] t.k = "arr"  -> NArr(PatchList(t.xs))
    [] t.k = "map"  -> NMap(t.ks, PatchList(t.vs))

(* design-level sanity of the traversal: balanced, properly nested *)
RECURSIVE Balanced(_, _, _)
Balanced(s, i, stack) ==
  IF i > Len(s) THEN stack = <<>>
  ELSE IF SubSeq(s[i], 1, 1) = "+" THEN Balanced(s, i + 1, Append(stack, SubSeq(s[i], 2, Len(s[i]))))
  ELSE /\ stack # <<>> /\ stack[Len(stack)] = SubSeq(s[i], 2, Len(s[i]))
       /\ Balanced(s, i + 1, SubSeq(stack, 1, Len(stack) - 1))
=============================================================================

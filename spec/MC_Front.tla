------------------------------ MODULE MC_Front ------------------------------
(***************************************************************************)
(* Front-end families (C11): instantiations of the untyped derivation      *)
(* machine GenSyn, the in-model round trip between the printers and the    *)
(* reference parser of Grammar.tla, and the emission of parse cases: for   *)
(* every tree its minimal and fully parenthesised texts under three        *)
(* layouts, all of which the real parser must map to that tree.            *)
(* Token sequences (every sequence over an operator alphabet up to a       *)
(* length) are enumerated by the second machine TokNext: the reference     *)
(* parser assigns each its tree or rejects it.                             *)
(***************************************************************************)
EXTENDS GenSyn, Json

CONSTANTS SFamily, SEmitMode, TokAlphabet, TokMaxLen

Pr(name, ns) == [name |-> name, ns |-> ns]
Fc(name, argc) == [name |-> name, argc |-> argc]
Mt(name, ns, argc) == [name |-> name, ns |-> ns, argc |-> argc]

FS_Leaves ==
  CASE SFamily = "prec"    -> {NId("a"), NInt(1)}
    [] SFamily = "ops"     -> {NId("a"), NId("b")}
    [] SFamily = "postfix" -> {NId("a"), NInt(1), NStr("s"), NBool(TRUE), NNil}
    [] SFamily = "forms"   -> {NId("a"), NInt(2)}
    [] SFamily = "mixed"   -> {NId("a"), NInt(1), NFloat("0.5", 1, 1)}
    [] SFamily = "cond"    -> {NId("a"), NId("b")}
FS_UnOps ==
  CASE SFamily = "prec"    -> {"not", "-"}
    [] SFamily = "ops"     -> {"!", "+"}
    [] SFamily = "postfix" -> {"-", "not"}
    [] SFamily = "forms"   -> {"not"}
    [] SFamily = "mixed"   -> {"not", "-"}
    [] SFamily = "cond"    -> {}
FS_BinOps ==
  CASE SFamily = "prec"    -> {"or", "and", "==", "..", "+", "*", "**"}
    [] SFamily = "ops"     -> {"||", "&&", "!=", "<", ">=", "<=", ">", "in", "not in", "matches", "contains", "startsWith",
                               "endsWith", "-", "/", "%", "**", "*"}
    [] SFamily = "postfix" -> {"+", "**"}
    [] SFamily = "forms"   -> {"and", "*"}
    [] SFamily = "mixed"   -> {"or", "==", "in", "+", "*", "**"}
    [] SFamily = "cond"    -> {"or"}
FS_Props ==
  CASE SFamily = "postfix" -> {Pr("x", FALSE), Pr("x", TRUE), Pr("not", FALSE)}
    [] SFamily = "mixed"   -> {Pr("x", TRUE), Pr("y", FALSE)}
    [] SFamily = "forms"   -> {Pr("x", FALSE)}
    [] OTHER -> {}
FS_Meths ==
  CASE SFamily = "postfix" -> {Mt("m", FALSE, 0), Mt("m", TRUE, 1)}
    [] SFamily = "forms"   -> {Mt("m", FALSE, 2)}
    [] OTHER -> {}
FS_Funcs ==
  CASE SFamily = "forms"   -> {Fc("f", 0), Fc("f", 1), Fc("g", 2)}
    [] SFamily = "mixed"   -> {Fc("f", 1)}
    [] OTHER -> {}
FS_Builtins ==
  CASE SFamily = "forms"   -> {"all", "map", "filter"}
    [] SFamily = "mixed"   -> {"any", "count"}
    [] OTHER -> {}
FS_UseLen  == SFamily \in {"forms"}
FS_UseCond == SFamily \in {"prec", "forms", "mixed", "cond"}
FS_UseIdx  == SFamily \in {"postfix", "mixed"}
FS_UseElem == SFamily \in {"forms", "mixed"}
FS_SliceShapes == CASE SFamily = "postfix" -> {"ft", "f", "t", "n"} [] SFamily = "mixed" -> {"f"} [] OTHER -> {}
FS_ArrLens == CASE SFamily = "forms" -> {0, 1, 2} [] SFamily = "mixed" -> {1} [] OTHER -> {}
FS_MapLens == CASE SFamily = "forms" -> {0, 1, 2} [] OTHER -> {}

---------------------------------------------------------------------------
(* machine 1: trees *)
Init == SInit
Next == SNext

ParsesTo(toks, t) == LET r == RefParse(toks) IN r.ok /\ r.node = Norm(t)

(* printing with only the required parentheses, or with all of them, and    *)
(* parsing by the reference grammar is the identity on trees                *)
RoundTrip == SComplete => ParsesTo(Min(STree), STree) /\ ParsesTo(Full(STree), STree) /\ ParsesTo(Sticky(STree), STree) /\ ParsesTo(Elvis(STree), STree)

(* every pair of parentheses the minimal printer writes is required: the    *)
(* sequence without it is not a sentence for the same tree                  *)
RECURSIVE MatchClose(_, _, _)
MatchClose(toks, i, d) ==      \* index of the ")" closing the "(" at an earlier position; d: nesting so far
  IF IsBr(toks[i], "(") THEN MatchClose(toks, i + 1, d + 1)
  ELSE IF IsBr(toks[i], ")") THEN (IF d = 0 THEN i ELSE MatchClose(toks, i + 1, d - 1))
  ELSE MatchClose(toks, i + 1, d)
Without(toks, i, j) == SubSeq(toks, 1, i - 1) \o SubSeq(toks, i + 1, j - 1) \o SubSeq(toks, j + 1, Len(toks))
(* grouping parentheses only: the "(" of a call or method is preceded by a name *)
IsGroupOpen(toks, i) == IsBr(toks[i], "(") /\ (i = 1 \/ toks[i - 1].k # "id")
(* (adopted quirk, appendix F: a postfix step after a unary whose operand ends *)
(* in a bare literal applies to the unary, `-1[0]` = `(-1)[0]`; the printer    *)
(* parenthesises such a base although the parser would not need it)            *)
RECURSIVE UnaryBase(_)
UnaryBase(t) == (t.k \in {"prop", "idx", "slice", "meth"} /\ t.x.k = "un")
                \/ \E i \in 1..Len(Kids(t)) : UnaryBase(Kids(t)[i])
ParensRequired == (SComplete /\ ~UnaryBase(STree)) =>
  LET toks == Min(STree)
  IN \A i \in 1..Len(toks) :
       IsGroupOpen(toks, i) => ~ParsesTo(Without(toks, i, MatchClose(toks, i + 1, 0)), STree)

TreeCase == [kind |-> "tree", tree |-> Norm(STree), n |-> n,
             texts |-> <<TextMin(Min(STree)), TextSpaced(Min(STree)), TextWild(Min(STree)),
                         TextMin(Full(STree)), TextWild(Full(STree)), TextSpaced(Sticky(STree)), TextWild2(Min(STree)), TextSpaced(Elvis(STree))>>]
EmitTrees == (SComplete /\ SEmitMode = "trees") => PrintT(ToJson(TreeCase))

---------------------------------------------------------------------------
(* machine 2: token sequences over an alphabet *)
TokOf(s) ==
  CASE s \in {"a", "b", "true", "nil", "len", "all", "f"} -> TId(s)
    [] s \in {"1", "2", "0.5"} -> TNum(s)
    [] s \in {"(", ")", "[", "]", "{", "}"} -> TBr(s)
    [] s = "'s'" -> TStr("s")
    [] OTHER -> TOp(s)

Alphabets ==
  [ops    |-> <<"a", "1", "or", "and", "==", "..", "+", "*", "**", "not", "-", "?", ":", "(", ")">>,
   post   |-> <<"a", "1", ".", "?.", "[", "]", ":", "(", ")", ",", "-", "not", "nil">>,
   forms  |-> <<"a", "len", "all", "(", ")", "{", "}", "[", "]", ",", ":", "#", ".", "'s'", "1">>]

TInit == stk = <<>> /\ n = 0
TNext == /\ Len(stk) < TokMaxLen
         /\ \E i \in 1..Len(Alphabets[TokAlphabet]) :
              /\ stk' = Append(stk, TokOf(Alphabets[TokAlphabet][i]))
              /\ n' = n + 1

SeqCase ==
  LET r == RefParse(stk)
  IN IF r.ok THEN [kind |-> "seq", ok |-> TRUE, tree |-> r.node, n |-> Len(stk),
                   texts |-> <<TextMin(stk), TextWild(stk)>>]
     ELSE [kind |-> "seq", ok |-> FALSE, at |-> r.at, n |-> Len(stk), texts |-> <<TextMin(stk), TextWild(stk)>>,
           \* C13: where the sequence stops being a sentence (the end of input has no token of its own)
           pos |-> IF r.at <= Len(stk) THEN <<PosMin(stk, r.at), PosWild(stk, r.at)>> ELSE <<>>]
EmitSeqs == (Len(stk) > 0 /\ SEmitMode = "seqs") => PrintT(ToJson(SeqCase))

---------------------------------------------------------------------------
(* near misses: every sentence of a family with one token deleted, one token doubled, or two adjacent tokens    *)
(* swapped.  The reference parser decides whether what remains is a sentence (and of which tree); the real     *)
(* parser must agree - a separator that became optional, a bracket that is no longer required, a keyword that  *)
(* is no longer an identifier all show here.                                                                   *)
DelTok(toks, i)  == SubSeq(toks, 1, i - 1) \o SubSeq(toks, i + 1, Len(toks))
DupTok(toks, i)  == SubSeq(toks, 1, i) \o SubSeq(toks, i, Len(toks))
SwapTok(toks, i) == SubSeq(toks, 1, i - 1) \o <<toks[i + 1], toks[i]>> \o SubSeq(toks, i + 2, Len(toks))
NearCase(toks) ==
  LET r == RefParse(toks)
  IN IF r.ok THEN [kind |-> "seq", ok |-> TRUE, tree |-> r.node, n |-> Len(toks), texts |-> <<TextSpaced(toks), TextWild(toks)>>]
     ELSE [kind |-> "seq", ok |-> FALSE, at |-> r.at, n |-> Len(toks), texts |-> <<TextSpaced(toks), TextWild(toks)>>, pos |-> <<>>]
(* (the words `not` and `in` side by side are, as text, the one token `not in`: such sequences have no text of their own) *)
NotThenIn(toks) == \E i \in 1..(Len(toks) - 1) : toks[i] = TOp("not") /\ toks[i + 1] = TOp("in")
EmitNearOne(toks) == NotThenIn(toks) \/ PrintT(ToJson(NearCase(toks)))
EmitNear ==
  (SComplete /\ SEmitMode = "near") =>
    LET toks == Min(STree)
    IN /\ \A i \in 1..Len(toks) : Len(toks) = 1 \/ EmitNearOne(DelTok(toks, i))
       /\ \A i \in 1..Len(toks) : EmitNearOne(DupTok(toks, i))
       /\ \A i \in 1..(Len(toks) - 1) : EmitNearOne(SwapTok(toks, i))

=============================================================================

-------------------------------- MODULE Gen --------------------------------
(***************************************************************************)
(* The derivation machine: "all expressions up to a node budget" as a      *)
(* reachable state space (DESIGN.md appendix E).                           *)
(*                                                                         *)
(* An expression is built in postfix order on a stack of typed sub-trees.  *)
(* Every action is enabled only when the reference typing rule (Types.tla) *)
(* admits the construct, so every complete state holds a well-typed tree,  *)
(* and every tree has exactly one derivation (postfix order is unique):    *)
(* the number of complete states is the number of distinct expressions.    *)
(* Breadth-first TLC enumerates all of them up to MaxNodes; `-simulate`    *)
(* draws random deep derivations from the same Next.                       *)
(*                                                                         *)
(* A family (MC_*.tla) instantiates the constants: which leaves,           *)
(* operators, members, functions and builtins may occur.                   *)
(***************************************************************************)
EXTENDS Types

CONSTANTS
  Leaves,       \* set of [e |-> tree, ty |-> static type] usable anywhere
  ElemLeaves,   \* BOOLEAN: `#` is a leaf inside closures
  UnOps, BinOps,
  Props,        \* set of [name, ns]
  Meths,        \* set of [name, ns]
  Funcs,        \* set of function names
  Builtins,     \* subset of {"all","none","any","one","count","filter","map"}
  UseLen, UseCond, UseIdx,
  SliceShapes,  \* subset of {"ft", "f", "t", "n"}
  ArrLens, MapLens,
  MaxNodes, MaxClosure,
  OrderGuard,   \* BOOLEAN: keep evaluation-order deviations unobservable (see SliceOrderFree)
  AnyColl,      \* BOOLEAN: a builtin may iterate over a dynamically typed operand (what it is, is known at run time only)
  Guard(_, _, _, _)  \* family-specific extra guard on binary nodes: Guard(op, l, r, entries)

VARIABLES stk, n
gvars == <<stk, n>>

E(e, ty) == [m |-> "e", e |-> e, ty |-> ty]
Open(name, x, xty) == [m |-> "open", name |-> name, x |-> x, xty |-> xty]

IsE(i) == i >= 1 /\ i <= Len(stk) /\ stk[i].m = "e"
Depth == Cardinality({i \in 1..Len(stk) : stk[i].m = "open"})
NumE(s) == Cardinality({i \in 1..Len(s) : s[i].m = "e"})
Need(s) == (NumE(s) \div 2) + (IF Len(s) > 0 /\ s[Len(s)].m = "open" THEN 1 ELSE 0)
           + (IF Len(s) = 0 THEN 1 ELSE 0)
Fits(s, k) == k + Need(s) <= MaxNodes

InnerOpen == LET idx == {i \in 1..Len(stk) : stk[i].m = "open"}
             IN stk[CHOOSE i \in idx : \A j \in idx : j <= i]

Cut(k) == SubSeq(stk, 1, Len(stk) - k)
Top(k) == stk[Len(stk) - k]       \* Top(0) is the top of the stack

Step(s) == /\ Fits(s, n + 1) /\ stk' = s /\ n' = n + 1

GInit == stk = <<>> /\ n = 0

GLeaf == \E lf \in Leaves : Step(Append(stk, E(lf.e, lf.ty)))

GElem == /\ ElemLeaves /\ Depth > 0
         /\ Step(Append(stk, E(NPtr, ElemT(InnerOpen.xty))))

GUn == /\ IsE(Len(stk))
       /\ \E op \in UnOps :
            LET a == Top(0)  ty == TyUn(op, a.ty)
            IN ty # REJECT /\ Step(Append(Cut(1), E(NUn(op, a.e), ty)))

GBin == /\ IsE(Len(stk)) /\ IsE(Len(stk) - 1)
        /\ \E op \in BinOps :
             LET l == Top(1)  r == Top(0)  ty == TyBin(op, l.ty, r.ty, {})
             IN /\ ty # REJECT /\ Guard(op, l, r, stk)
                /\ Step(Append(Cut(2), E(NBin(op, l.e, r.e), ty)))

GCond == /\ UseCond /\ IsE(Len(stk)) /\ IsE(Len(stk) - 1) /\ IsE(Len(stk) - 2)
         /\ LET c == Top(2)  a == Top(1)  b == Top(0)  ty == TyCond(c.ty, a.ty, b.ty)
            IN ty # REJECT /\ Step(Append(Cut(3), E(NCond(c.e, a.e, b.e), ty)))

GProp == /\ IsE(Len(stk))
         /\ \E p \in Props :
              LET a == Top(0)  ty == TyProp(a.ty, p.name)
              IN ty # REJECT /\ Step(Append(Cut(1), E(NProp(a.e, p.name, p.ns), ty)))

GIdx == /\ UseIdx /\ IsE(Len(stk)) /\ IsE(Len(stk) - 1)
        /\ LET a == Top(1)  i == Top(0)  ty == TyIdx(a.ty, i.ty)
           IN ty # REJECT /\ Step(Append(Cut(2), E(NIdx(a.e, i.e), ty)))

(* Generator restriction: when the lower bound of a slice contains a call,  *)
(* the sliced operand is statically sliceable and the upper bound has no    *)
(* call, so that the order in which the implementation evaluates the bounds *)
(* (Dev_SliceToBeforeFrom, family "order") is not observable.               *)
SliceOrderFree(x, from, hasTo, to) ==
  HasCall(from.e) => (x.ty # "any" /\ (hasTo => ~HasCall(to.e)))

GSlice ==
  \E sh \in SliceShapes :
    CASE sh = "ft" -> /\ IsE(Len(stk)) /\ IsE(Len(stk) - 1) /\ IsE(Len(stk) - 2)
                      /\ LET ty == TySlice(Top(2).ty, TRUE, Top(1).ty, TRUE, Top(0).ty)
                         IN ty # REJECT /\ (OrderGuard => SliceOrderFree(Top(2), Top(1), TRUE, Top(0)))
                            /\ Step(Append(Cut(3), E(NSlice(Top(2).e, Top(1).e, Top(0).e), ty)))
      [] sh = "f"  -> /\ IsE(Len(stk)) /\ IsE(Len(stk) - 1)
                      /\ LET ty == TySlice(Top(1).ty, TRUE, Top(0).ty, FALSE, "int")
                         IN ty # REJECT /\ (OrderGuard => SliceOrderFree(Top(1), Top(0), FALSE, Top(0)))
                            /\ Step(Append(Cut(2), E(NSlice(Top(1).e, Top(0).e, NNone), ty)))
      [] sh = "t"  -> /\ IsE(Len(stk)) /\ IsE(Len(stk) - 1)
                      /\ LET ty == TySlice(Top(1).ty, FALSE, "int", TRUE, Top(0).ty)
                         IN ty # REJECT /\ Step(Append(Cut(2), E(NSlice(Top(1).e, NNone, Top(0).e), ty)))
      [] sh = "n"  -> /\ IsE(Len(stk))
                      /\ LET ty == TySlice(Top(0).ty, FALSE, "int", FALSE, "int")
                         IN ty # REJECT /\ Step(Append(Cut(1), E(NSlice(Top(0).e, NNone, NNone), ty)))

ArgsE(k) == [i \in 1..k |-> stk[Len(stk) - k + i].e]
ArgsT(k) == [i \in 1..k |-> stk[Len(stk) - k + i].ty]
AllE(k)  == \A i \in 1..k : IsE(Len(stk) - k + i)

(* Generator restriction (not a typing rule): an argument that is a binary   *)
(* arithmetic node is generated only when its static type is the parameter  *)
(* type, so that the checker's retyping of such arguments                   *)
(* (Dev_ArgRetypeArithmetic, decided by C03) cannot change the meaning.     *)
(* Likewise a filter/map result (statically []T, dynamically []interface{},  *)
(* Dev_BuiltinStaticElem, decided by C03) is passed only to an `any`        *)
(* parameter.                                                               *)
ArgsPlain(ps, k) == \A i \in 1..k :
                      /\ IsArithNode(ArgsE(k)[i]) => (ArgsT(k)[i] = ps[i] \/ ps[i] = "any")
                      /\ ProducesAnySlice(ArgsE(k)[i]) => ps[i] = "any"

GCall == \E f \in Funcs : \E k \in (IF FnSig[f].var THEN 0..2 ELSE {Len(FnSig[f].ps)}) :
              /\ Len(stk) >= k /\ AllE(k)
              /\ LET ty == TyCall(FnSig[f], ArgsE(k), ArgsT(k))
                 IN ty # REJECT /\ ArgsPlain(FnSig[f].ps, k)
                    /\ Step(Append(Cut(k), E(NCall(f, ArgsE(k)), ty)))

GMeth == \E mm \in Meths :
           LET k == Len(MethSig[mm.name].ps)
           IN /\ Len(stk) >= k + 1 /\ AllE(k + 1)
              /\ LET recv == stk[Len(stk) - k]
                     ok == IF mm.name = "Bump" THEN recv.ty = "*Obj" ELSE recv.ty \in {"Obj", "*Obj"}
                     ty == TyCall(MethSig[mm.name], ArgsE(k), ArgsT(k))
                 IN ok /\ ty # REJECT /\ ArgsPlain(MethSig[mm.name].ps, k)
                    /\ Step(Append(Cut(k + 1), E(NMeth(recv.e, mm.name, ArgsE(k), mm.ns), ty)))

GLen == /\ UseLen /\ IsE(Len(stk))
        /\ LET ty == TyLen(Top(0).ty) IN ty # REJECT /\ Step(Append(Cut(1), E(NLen(Top(0).e), ty)))

(* open a builtin over the collection on top of the stack: its closure body *)
(* is derived next, with `#` available                                      *)
GOpen == /\ IsE(Len(stk)) /\ Depth < MaxClosure
         /\ \E b \in Builtins :
              /\ (IsSliceT(Top(0).ty) \/ (AnyColl /\ Top(0).ty = "any"))
              /\ Step(Append(Cut(1), Open(b, Top(0).e, Top(0).ty)))

GClose == /\ Len(stk) >= 2 /\ IsE(Len(stk)) /\ ~IsE(Len(stk) - 1)
          /\ LET o == Top(1)  body == Top(0)
                 ty == TyBuiltin(o.name, o.xty, body.ty)
                 gty == ty
             IN /\ ty # REJECT /\ body.ty # "nil"
                /\ Fits(Append(Cut(2), E(NBi(o.name, o.x, body.e), gty)), n)
                /\ stk' = Append(Cut(2), E(NBi(o.name, o.x, body.e), gty)) /\ n' = n

GArr == \E k \in ArrLens :
          /\ Len(stk) >= k /\ AllE(k)
          /\ Step(Append(Cut(k), E(NArr(ArgsE(k)), "[]any")))

MapKeys == <<"a", "b", "c">>
GMapL == \E k \in MapLens :
          /\ Len(stk) >= k /\ AllE(k)
          /\ Step(Append(Cut(k), E(NMap(SubSeq(MapKeys, 1, k), ArgsE(k)), "map[string]any")))

GNext == \/ GLeaf \/ GElem \/ GUn \/ GBin \/ GCond \/ GProp \/ GIdx \/ GSlice
         \/ GCall \/ GMeth \/ GLen \/ GOpen \/ GClose \/ GArr \/ GMapL

Complete == Len(stk) = 1 /\ stk[1].m = "e"
Tree == stk[1].e
TreeTy == stk[1].ty
=============================================================================

-------------------------------- MODULE Sem --------------------------------
(***************************************************************************)
(* The language definition of expr as a big-step reference semantics.      *)
(*                                                                         *)
(*   Eval(t, rho, st, cx) = [v |-> value or [t:"err"], st |-> state]       *)
(*                                                                         *)
(* t    syntax tree (records, constructors below; mirrors ast/node.go)     *)
(* rho  environment value: function member name -> value                   *)
(* st   threaded state: call log of environment functions (in call order)  *)
(*      and the number of collection elements created so far (C06)         *)
(* cx   context: memory budget L, element stack of the enclosing closures, *)
(*      the set dv of deviations switched on (Prim.tla)                    *)
(*                                                                         *)
(* Evaluation is strictly left to right, every operand once; `and`, `or`   *)
(* and `?:` evaluate only the operand they need; a failure is all or       *)
(* nothing.  DESIGN.md appendix B lists the definitional choices.          *)
(***************************************************************************)
EXTENDS Prim

---------------------------------------------------------------------------
(* Syntax trees *)
NNil        == [k |-> "nil"]
NBool(b)    == [k |-> "bool", b |-> b]
NInt(n)     == [k |-> "int", v |-> n]
NFloat(txt, m, e) == [k |-> "float", txt |-> txt, m |-> m, e |-> e]
NStr(s)     == [k |-> "str", s |-> s]
NId(name)   == [k |-> "id", name |-> name]
NUn(op, x)  == [k |-> "un", op |-> op, x |-> x]
NBin(op, l, r) == [k |-> "bin", op |-> op, l |-> l, r |-> r]
NProp(x, name, ns) == [k |-> "prop", x |-> x, name |-> name, ns |-> ns]
NIdx(x, i)  == [k |-> "idx", x |-> x, i |-> i]
NNone       == [k |-> "none"]
NSlice(x, from, to) == [k |-> "slice", x |-> x, from |-> from, to |-> to]
NMeth(x, name, args, ns) == [k |-> "meth", x |-> x, name |-> name, args |-> args, ns |-> ns]
NCall(name, args) == [k |-> "call", name |-> name, args |-> args]
NLen(x)     == [k |-> "len", x |-> x]
NBi(name, x, body) == [k |-> "bi", name |-> name, x |-> x, body |-> body]
NPtr        == [k |-> "ptr"]
NCond(c, a, b) == [k |-> "cond", c |-> c, a |-> a, b |-> b]
NArr(xs)    == [k |-> "arr", xs |-> xs]
NMap(ks, vs) == [k |-> "map", ks |-> ks, vs |-> vs]   \* ks: sequence of key strings
NConst(v)   == [k |-> "const", v |-> v]               \* a value computed at compile time (optimizer output only)

---------------------------------------------------------------------------
(* Rendering: the source text of a tree, parenthesised so that the tree    *)
(* does not depend on operator precedence (C11 checks precedence on its    *)
(* own printer).  Atoms and postfix chains are written bare so that the    *)
(* type-directed instruction selection of the compiler is reached.         *)

Bare(t)  == t.k \in {"nil", "bool", "int", "float", "str", "id", "call", "len", "bi",
                     "ptr", "arr", "map", "prop", "idx", "slice", "meth"}
PostfixBase(t) == t.k \in {"id", "call", "len", "bi", "ptr", "arr", "map",
                           "prop", "idx", "slice", "meth"}
RECURSIVE ChainNS(_)
ChainNS(t) == CASE t.k \in {"prop", "meth"} -> t.ns
                [] t.k \in {"idx", "slice"} -> PostfixBase(t.x) /\ ChainNS(t.x)
                [] OTHER -> FALSE

RECURSIVE Src(_), SrcList(_, _)
Par(t)  == IF Bare(t) THEN Src(t) ELSE "(" \o Src(t) \o ")"
Base(t, stepNs) == IF PostfixBase(t) /\ (ChainNS(t) => stepNs) THEN Src(t) ELSE "(" \o Src(t) \o ")"
SrcList(ts, i) == IF i > Len(ts) THEN ""
                  ELSE Src(ts[i]) \o (IF i < Len(ts) THEN ", " ELSE "") \o SrcList(ts, i + 1)
RECURSIVE SrcPairs(_, _, _)
SrcPairs(ks, vs, i) == IF i > Len(ks) THEN ""
                  ELSE "\"" \o ks[i] \o "\": " \o Src(vs[i]) \o (IF i < Len(ks) THEN ", " ELSE "")
                       \o SrcPairs(ks, vs, i + 1)
Src(t) ==
  CASE t.k = "nil"   -> "nil"
    [] t.k = "bool"  -> IF t.b THEN "true" ELSE "false"
    [] t.k = "int"   -> ToString(t.v)
    [] t.k = "float" -> t.txt
    [] t.k = "str"   -> "\"" \o t.s \o "\""
    [] t.k = "id"    -> t.name
    [] t.k = "ptr"   -> "#"
    [] t.k = "const" -> "<const>"
    [] t.k = "un"    -> (IF t.op = "not" THEN "not " ELSE t.op) \o Par(t.x)
    [] t.k = "bin"   -> Par(t.l) \o " " \o t.op \o " " \o Par(t.r)
    [] t.k = "prop"  -> Base(t.x, t.ns) \o (IF t.ns THEN "?." ELSE ".") \o t.name
    [] t.k = "meth"  -> Base(t.x, t.ns) \o (IF t.ns THEN "?." ELSE ".") \o t.name
                          \o "(" \o SrcList(t.args, 1) \o ")"
    [] t.k = "idx"   -> Base(t.x, TRUE) \o "[" \o Src(t.i) \o "]"
    [] t.k = "slice" -> Base(t.x, TRUE) \o "[" \o (IF t.from.k = "none" THEN "" ELSE Src(t.from)) \o ":"
                          \o (IF t.to.k = "none" THEN "" ELSE Src(t.to)) \o "]"
    [] t.k = "call"  -> t.name \o "(" \o SrcList(t.args, 1) \o ")"
    [] t.k = "len"   -> "len(" \o Src(t.x) \o ")"
    [] t.k = "bi"    -> t.name \o "(" \o Src(t.x) \o ", {" \o Src(t.body) \o "})"
    [] t.k = "cond"  -> Par(t.c) \o " ? " \o Par(t.a) \o " : " \o Par(t.b)
    [] t.k = "arr"   -> "[" \o SrcList(t.xs, 1) \o "]"
    [] t.k = "map"   -> "{" \o SrcPairs(t.ks, t.vs, 1) \o "}"

RECURSIVE Size(_), SizeList(_, _)
SizeList(ts, i) == IF i > Len(ts) THEN 0 ELSE Size(ts[i]) + SizeList(ts, i + 1)
Size(t) ==
  CASE t.k \in {"nil", "bool", "int", "float", "str", "id", "ptr", "const"} -> 1
    [] t.k = "none" -> 0
    [] t.k = "un"   -> 1 + Size(t.x)
    [] t.k = "bin"  -> 1 + Size(t.l) + Size(t.r)
    [] t.k = "prop" -> 1 + Size(t.x)
    [] t.k = "meth" -> 1 + Size(t.x) + SizeList(t.args, 1)
    [] t.k = "idx"  -> 1 + Size(t.x) + Size(t.i)
    [] t.k = "slice" -> 1 + Size(t.x) + Size(t.from) + Size(t.to)
    [] t.k = "call" -> 1 + SizeList(t.args, 1)
    [] t.k = "len"  -> 1 + Size(t.x)
    [] t.k = "bi"   -> 1 + Size(t.x) + Size(t.body)
    [] t.k = "cond" -> 1 + Size(t.c) + Size(t.a) + Size(t.b)
    [] t.k = "arr"  -> 1 + SizeList(t.xs, 1)
    [] t.k = "map"  -> 1 + SizeList(t.vs, 1)

(* the child trees of a node, in source order *)
Kids(t) ==
  CASE t.k \in {"nil", "bool", "int", "float", "str", "id", "ptr", "none", "const"} -> <<>>
    [] t.k \in {"un", "prop", "len"} -> <<t.x>>
    [] t.k = "bin"  -> <<t.l, t.r>>
    [] t.k = "meth" -> <<t.x>> \o t.args
    [] t.k = "idx"  -> <<t.x, t.i>>
    [] t.k = "slice" -> <<t.x>> \o (IF t.from.k = "none" THEN <<>> ELSE <<t.from>>)
                               \o (IF t.to.k = "none" THEN <<>> ELSE <<t.to>>)
    [] t.k = "call" -> t.args
    [] t.k = "bi"   -> <<t.x, t.body>>
    [] t.k = "cond" -> <<t.c, t.a, t.b>>
    [] t.k = "arr"  -> t.xs
    [] t.k = "map"  -> t.vs

(* Constant integer folding as optimizer/fold.go performs it (to a fixpoint): *)
(* the integer a constant tree folds to, "dz" for a constant division or      *)
(* modulo by zero, "no" when the tree is not a constant integer.              *)
RECURSIVE CFold(_)
CFold(t) ==
  CASE t.k = "int" -> [c |-> "int", n |-> t.v]
    [] t.k = "un" /\ t.op \in {"-", "+"} ->
         LET a == CFold(t.x) IN IF a.c = "int" THEN [c |-> "int", n |-> (IF t.op = "-" THEN -a.n ELSE a.n)] ELSE [c |-> "no"]
    [] t.k = "bin" /\ t.op \in {"+", "-", "*", "/", "%"} ->
         LET a == CFold(t.l)  b == CFold(t.r)
         IN IF a.c = "int" /\ b.c = "int"
            THEN IF t.op \in {"/", "%"} /\ b.n = 0 THEN [c |-> "dz"]
                 ELSE [c |-> "int", n |-> CASE t.op = "+" -> a.n + b.n [] t.op = "-" -> a.n - b.n
                                            [] t.op = "*" -> a.n * b.n
                                            [] t.op = "/" -> Trunc(Abs(a.n), Abs(b.n)) * Sgn(a.n) * Sgn(b.n)
                                            [] t.op = "%" -> Sgn(a.n) * (Abs(a.n) % Abs(b.n))]
            ELSE [c |-> "no"]
    [] OTHER -> [c |-> "no"]
RECURSIVE HasConstDivZero(_)
HasConstDivZero(t) == CFold(t).c = "dz" \/ \E i \in 1..Len(Kids(t)) : HasConstDivZero(Kids(t)[i])

(* a pattern literal that is not a regular expression is rejected by the parser *)
RECURSIVE HasConstBadPattern(_)
HasConstBadPattern(t) == (t.k = "bin" /\ t.op = "matches" /\ t.r.k = "str" /\ t.r.s = "(")
                         \/ \E i \in 1..Len(Kids(t)) : HasConstBadPattern(Kids(t)[i])

RECURSIVE HasCall(_)
HasCall(t) == t.k \in {"call", "meth"} \/ \E i \in 1..Len(Kids(t)) : HasCall(Kids(t)[i])

(* statically a []T, dynamically the []interface{} that filter/map build *)
RECURSIVE ProducesAnySlice(_)
ProducesAnySlice(t) ==
  CASE t.k = "bi" -> t.name \in {"filter", "map"}
    [] t.k = "cond" -> ProducesAnySlice(t.a) \/ ProducesAnySlice(t.b)
    [] t.k = "slice" -> ProducesAnySlice(t.x)
    [] OTHER -> FALSE

IsArithNode(t) == t.k = "bin" /\ t.op \in {"+", "-", "*", "/", "%"}

RECURSIVE Mentions(_), MentionsList(_, _)
MentionsList(ts, i) == IF i > Len(ts) THEN {} ELSE Mentions(ts[i]) \cup MentionsList(ts, i + 1)
Mentions(t) ==
  CASE t.k = "id" -> {t.name}
    [] t.k \in {"nil", "bool", "int", "float", "str", "ptr", "none", "const"} -> {}
    [] t.k = "un"   -> Mentions(t.x)
    [] t.k = "bin"  -> Mentions(t.l) \cup Mentions(t.r)
    [] t.k = "prop" -> Mentions(t.x)
    [] t.k = "meth" -> Mentions(t.x) \cup MentionsList(t.args, 1)
    [] t.k = "idx"  -> Mentions(t.x) \cup Mentions(t.i)
    [] t.k = "slice" -> Mentions(t.x) \cup Mentions(t.from) \cup Mentions(t.to)
    [] t.k = "call" -> MentionsList(t.args, 1)
    [] t.k = "len"  -> Mentions(t.x)
    [] t.k = "bi"   -> Mentions(t.x) \cup Mentions(t.body)
    [] t.k = "cond" -> Mentions(t.c) \cup Mentions(t.a) \cup Mentions(t.b)
    [] t.k = "arr"  -> MentionsList(t.xs, 1)
    [] t.k = "map"  -> MentionsList(t.vs, 1)

---------------------------------------------------------------------------
(* The environment: members of the harness type Env (harness/env.go; the   *)
(* harness checks this signature against reflection at start).             *)

MemberType ==
  [I |-> "int", J |-> "int", K |-> "int", I8 |-> "int8", I16 |-> "int16", I32 |-> "int32", I64 |-> "int64",
   U |-> "uint", U8 |-> "uint8", U16 |-> "uint16", U32 |-> "uint32", U64 |-> "uint64",
   F32 |-> "float32", F |-> "float64", G |-> "float64", B |-> "bool", C |-> "bool",
   S |-> "string", T |-> "string",
   Xs |-> "[]int", Ys |-> "[]int", Big |-> "[]int", Fs |-> "[]float64", Ss |-> "[]string", Anys |-> "[]any", Any |-> "any",
   M |-> "map[string]int", MA |-> "map[string]any",
   O |-> "Obj", P |-> "*Obj", Os |-> "[]Obj", Ps |-> "[]*Obj"]

ObjFields == [N |-> "int", Name |-> "string", Next |-> "*Obj", Tags |-> "[]string"]

(* functions: parameter types and result type *)
Sig(ps, r) == [ps |-> ps, r |-> r, var |-> FALSE]
FnSig ==
  [Id    |-> Sig(<<"int">>, "int"),
   Neg   |-> Sig(<<"int">>, "int"),
   Add   |-> Sig(<<"int", "int">>, "int"),
   IsPos |-> Sig(<<"int">>, "bool"),
   Cat   |-> Sig(<<"string", "string">>, "string"),
   Half  |-> Sig(<<"float64">>, "float64"),
   Sum   |-> Sig(<<"[]int">>, "int"),
   Len3  |-> Sig(<<"[]any">>, "int"),
   AnyId |-> Sig(<<"any">>, "any"),
   Boom  |-> Sig(<<"int">>, "int"),
   NilFn |-> Sig(<<"int">>, "int"),
   Twice |-> Sig(<<"int">>, "int"),
   I8Id  |-> Sig(<<"int8">>, "int8"),
   Var   |-> [ps |-> <<"any", "any", "any">>, r |-> "any", var |-> TRUE],   \* func(...interface{}) interface{}
   Pair  |-> Sig(<<"any", "any">>, "any"),
   AddF  |-> Sig(<<"float64", "float64">>, "float64"),
   AddAny |-> Sig(<<"any", "any">>, "any"),
   Rev   |-> Sig(<<"[]int">>, "[]int"),
   Tup   |-> [ps |-> <<"any", "any", "any">>, r |-> "any", var |-> TRUE],
   VarI  |-> [ps |-> <<"any", "any", "any">>, r |-> "any", var |-> TRUE]]
(* methods of Obj (value receiver) and *Obj (pointer receiver) *)
MethSig ==
  [GetN |-> Sig(<<>>, "int"),
   Bump |-> Sig(<<"int">>, "int")]

ZeroObj == Obj("Obj", [N |-> IntV(0), Name |-> Str(""), Next |-> PtrNil("Obj"), Tags |-> Arr("nil[]string", <<>>)])

ZeroVal(ty) ==
  CASE ty \in IntKinds -> IntK(ty, 0)
    [] ty \in FloatKinds -> Flt(ty, 0, 0)
    [] ty = "bool" -> Bool(FALSE)
    [] ty = "string" -> Str("")
    [] ty = "[]int" -> Arr("nil[]int", <<>>)
    [] ty = "[]float64" -> Arr("nil[]float64", <<>>)
    [] ty = "[]string" -> Arr("nil[]string", <<>>)
    [] ty = "[]any" -> Arr("nil[]any", <<>>)
    [] ty = "[]Obj" -> Arr("nil[]Obj", <<>>)
    [] ty = "[]*Obj" -> Arr("nil[]*Obj", <<>>)
    [] ty = "any" -> Nil
    [] ty = "map[string]int" -> MapV("nil:int", <<>>, <<>>)
    [] ty = "map[string]any" -> MapV("nil:any", <<>>, <<>>)
    [] ty = "Obj" -> ZeroObj
    [] ty = "*Obj" -> PtrNil("Obj")

Members == DOMAIN MemberType
ZeroEnv == [m \in Members |-> ZeroVal(MemberType[m])]
(* partial assignment over the zero environment *)
EnvOf(asg) == [m \in Members |-> IF m \in DOMAIN asg THEN asg[m] ELSE ZeroVal(MemberType[m])]

---------------------------------------------------------------------------
(* Dynamic assignability of a value to a Go parameter type (reflect.Call)  *)
DynAssignable(v, pty) ==
  CASE pty = "any" -> TRUE
    [] pty \in NumKinds -> IsNum(v) /\ v.k = pty
    [] pty = "string" -> IsStr(v)
    [] pty = "bool" -> IsBool(v)
    [] pty = "[]int" -> v.t = "arr" /\ v.et \in {"int", "nil[]int"}
    [] pty = "[]any" -> v.t = "arr" /\ v.et \in {"any", "nil[]any"}
    [] pty = "[]string" -> v.t = "arr" /\ v.et \in {"string", "nil[]string"}
    [] OTHER -> FALSE

RECURSIVE SumSeq(_, _)
SumSeq(a, i) == IF i > Len(a) THEN 0 ELSE a[i].n + SumSeq(a, i + 1)

(* What the harness's environment functions compute (harness/env.go) *)
FnApply(name, args, rho) ==
  CASE name = "Id"    -> args[1]
    [] name = "Neg"   -> Wrap(-(args[1].n), "int")
    [] name = "Add"   -> Wrap(args[1].n + args[2].n, "int")
    [] name = "IsPos" -> Bool(args[1].n > 0)
    [] name = "Cat"   -> Str(args[1].s \o args[2].s)
    [] name = "Half"  -> Flt("float64", args[1].m, args[1].e + 1)
    [] name = "Sum"   -> IntV(SumSeq(args[1].a, 1))
    [] name = "Len3"  -> IntV(Len(args[1].a))
    [] name = "AnyId" -> args[1]
    [] name = "Boom"  -> Err("callpanic")
    [] name = "NilFn" -> Err("nil")
    [] name = "Twice" -> Wrap(2 * args[1].n, "int")
    [] name = "I8Id"  -> args[1]
    [] name = "Var"   -> IntV(Len(args))
    [] name = "Pair"  -> Arr("any", args)
    [] name = "AddF"  -> Arith("+", args[1], args[2], {})
    [] name = "AddAny" -> Arr("any", args)
    [] name = "Rev"   -> Arr("int", [i \in 1..Len(args[1].a) |-> args[1].a[Len(args[1].a) + 1 - i]])
    [] name = "Tup"   -> Arr("any", args)       \* the callee returns its argument list
    [] name = "VarI"  -> Wrap(rho["I"].n + Len(args), "int")   \* a closure over its own environment value

(* a signed integer literal: the only argument form that adopts the        *)
(* parameter's numeric type (appendix G)                                   *)
RECURSIVE IsSignedIntLit(_)
IsSignedIntLit(t) == t.k = "int" \/ (t.k = "un" /\ t.op \in {"+", "-"} /\ IsSignedIntLit(t.x))

---------------------------------------------------------------------------
R(v, st) == [v |-> v, st |-> st]

(* create `size` collection elements: C06 accounting.  The run fails as    *)
(* soon as the elements created so far reach the budget.                   *)
Alloc(st, size, cx) ==
  LET m == st.mem + size IN [st EXCEPT !.mem = m]
Over(st, cx) == st.mem >= cx.L

UnOp(op, a) ==
  CASE op \in {"not", "!"} -> IF IsBool(a) THEN Bool(~a.b) ELSE Err("type")
    [] op = "-" -> Negate(a)
    [] op = "+" -> a     \* the identity: the operand's type is checked statically only

BinOp(op, a, b, dv) ==
  CASE op \in {"+", "-", "*", "/", "%"} -> Arith(op, a, b, dv)
    [] op = "**" -> Pow(a, b)
    [] op = "==" -> Equal(a, b, dv)
    [] op = "!=" -> Bool(~EqualB(a, b, dv))
    [] op \in {"<", "<=", ">", ">="} -> Compare(op, a, b, dv)
    [] op = "in" -> In(a, b, dv)
    [] op = "not in" -> LET r == In(a, b, dv) IN IF IsErr(r) THEN r ELSE Bool(~r.b)
    [] op \in {"contains", "startsWith", "endsWith", "matches"} -> StrOp(op, a, b)

RECURSIVE Eval(_, _, _, _), EvalList(_, _, _, _, _, _), Loop(_, _, _, _, _, _, _, _)

(* evaluate ts[i..] left to right, accumulating values; stops at the first error *)
EvalList(ts, i, acc, rho, st, cx) ==
  IF i > Len(ts) THEN [vs |-> acc, err |-> Nil, st |-> st]
  ELSE LET r == Eval(ts[i], rho, st, cx)
       IN IF IsErr(r.v) THEN [vs |-> acc, err |-> r.v, st |-> r.st]
          ELSE EvalList(ts, i + 1, Append(acc, r.v), rho, r.st, cx)

(* arguments as the call receives them: literal retyping, then reflect.Call's check *)
RECURSIVE PrepArgs(_, _, _, _, _)
PrepArgs(argTs, vs, ps, i, acc) ==
  IF i > Len(vs) THEN acc
  ELSE LET v == IF IsSignedIntLit(argTs[i]) /\ ps[i] \in NumKinds THEN Conv(vs[i], ps[i]) ELSE vs[i]
       IN PrepArgs(argTs, vs, ps, i + 1, Append(acc, v))

CallResult(name, sig, argTs, vs, st, rho) ==
  LET args == PrepArgs(argTs, vs, sig.ps, 1, <<>>)
      bad  == \E i \in 1..Len(args) : IsErr(args[i]) \/ ~DynAssignable(args[i], sig.ps[i])
  IN IF bad THEN R(Err("type"), st)
     ELSE IF name = "NilFn" THEN R(Err("nil"), st)        \* a nil function value: nothing is called
     ELSE R(FnApply(name, args, rho), [st EXCEPT !.calls = Append(@, [fn |-> name, args |-> args])])

MethApply(name, recv, args) ==
  LET o == IF recv.t = "ptr" THEN recv.to ELSE recv
  IN CASE name = "GetN" -> o.f.N
       [] name = "Bump" -> Wrap(o.f.N.n + args[1].n, "int")

(* Loop over the elements of a collection for the builtin `name`.          *)
(* acc: count (one, count), or the sequence of kept/mapped values.         *)
Loop(name, body, xs, i, acc, rho, st, cx) ==
  IF i > Len(xs)
  THEN CASE name = "all"  -> R(Bool(TRUE), st)
         [] name = "none" -> R(Bool(TRUE), st)
         [] name = "any"  -> R(Bool(FALSE), st)
         [] name = "one"  -> R(Bool(acc = 1), st)
         [] name = "count" -> R(IntV(acc), st)
         [] name \in {"filter", "map"} ->
              LET st2 == Alloc(st, Len(acc), cx)
              IN IF Over(st2, cx) THEN R(Err("budget"), st2) ELSE R(Arr("any", acc), st2)
  ELSE LET r == Eval(body, rho, st, [cx EXCEPT !.els = Append(@, xs[i])])
       IN IF IsErr(r.v) THEN r
          ELSE IF name = "map" THEN Loop(name, body, xs, i + 1, Append(acc, r.v), rho, r.st, cx)
          ELSE IF ~IsBool(r.v) THEN R(Err("type"), r.st)
          ELSE CASE name = "all"  -> IF r.v.b THEN Loop(name, body, xs, i + 1, acc, rho, r.st, cx)
                                     ELSE R(Bool(FALSE), r.st)
                 [] name = "none" -> IF r.v.b THEN R(Bool(FALSE), r.st)
                                     ELSE Loop(name, body, xs, i + 1, acc, rho, r.st, cx)
                 [] name = "any"  -> IF r.v.b THEN R(Bool(TRUE), r.st)
                                     ELSE Loop(name, body, xs, i + 1, acc, rho, r.st, cx)
                 [] name \in {"one", "count"} ->
                      Loop(name, body, xs, i + 1, (IF r.v.b THEN acc + 1 ELSE acc), rho, r.st, cx)
                 [] name = "filter" ->
                      Loop(name, body, xs, i + 1, (IF r.v.b THEN Append(acc, xs[i]) ELSE acc), rho, r.st, cx)

Eval(t, rho, st, cx) ==
  CASE t.k = "nil"   -> R(Nil, st)
    [] t.k = "bool"  -> R(Bool(t.b), st)
    [] t.k = "int"   -> R(IntV(t.v), st)
    [] t.k = "float" -> R(F64(t.m, t.e), st)
    [] t.k = "str"   -> R(Str(t.s), st)
    [] t.k = "id"    -> IF t.name \in DOMAIN rho THEN R(rho[t.name], st)
                        ELSE R(Err("nil"), st)           \* a name the environment value does not have
    [] t.k = "ptr"   -> R(cx.els[Len(cx.els)], st)       \* the element of the innermost collection
    [] t.k = "const" -> R(t.v, st)
    [] t.k = "un"    -> LET a == Eval(t.x, rho, st, cx)
                        IN IF IsErr(a.v) THEN a ELSE R(UnOp(t.op, a.v), a.st)
    [] t.k = "bin" /\ "Dev_InRangeRewrite" \in cx.dv /\ t.op \in {"in", "not in"}
         /\ t.r.k = "bin" /\ t.r.op = ".." /\ CFold(t.r.l).c = "int" /\ CFold(t.r.r).c = "int" ->
         \* optimizer/in_range.go: x in a..b becomes x >= a and x <= b (x duplicated, no type guard)
         LET rw == NBin("and", NBin(">=", t.l, NInt(CFold(t.r.l).n)), NBin("<=", t.l, NInt(CFold(t.r.r).n)))
         IN Eval((IF t.op = "in" THEN rw ELSE NUn("not", rw)), rho, st, cx)
    [] t.k = "bin"   ->
         LET a == Eval(t.l, rho, st, cx)
         IN IF IsErr(a.v) THEN a
            ELSE IF t.op \in {"and", "&&"}
            THEN IF ~IsBool(a.v) THEN R(Err("type"), a.st)
                 ELSE IF ~a.v.b THEN a ELSE Eval(t.r, rho, a.st, cx)
            ELSE IF t.op \in {"or", "||"}
            THEN IF ~IsBool(a.v) THEN R(Err("type"), a.st)
                 ELSE IF a.v.b THEN a ELSE Eval(t.r, rho, a.st, cx)
            ELSE LET b == Eval(t.r, rho, a.st, cx)
                 IN IF IsErr(b.v) THEN b
                    ELSE IF t.op = ".."
                    THEN IF ~(IsNum(a.v) /\ IsNum(b.v)) THEN R(Err("type"), b.st)
                         ELSE LET lo == ToIntIdx(a.v)  hi == ToIntIdx(b.v)
                                  sz == IF "Dev_RangeSizeSigned" \in cx.dv THEN hi - lo + 1 ELSE RangeSize(lo, hi)
                                  st2 == Alloc(b.st, sz, cx)
                              IN IF Over(st2, cx) THEN R(Err("budget"), b.st)
                                 ELSE IF RangeSize(lo, hi) > 64 THEN R(Outside, st2)
                                 ELSE R(RangeVal(lo, hi), st2)
                    ELSE IF /\ "Dev_InArrayStringUntyped" \in cx.dv /\ t.op \in {"in", "not in"}
                            /\ t.r.k = "arr" /\ Len(t.r.xs) > 0 /\ \A i \in 1..Len(t.r.xs) : t.r.xs[i].k = "str"
                            /\ ~IsStr(a.v)
                    THEN R(Err("type"), b.st)      \* optimizer/in_array.go: map[string]struct{} lookup with a non-string key
                    ELSE R(BinOp(t.op, a.v, b.v, cx.dv), b.st)
    [] t.k = "prop"  -> LET a == Eval(t.x, rho, st, cx)
                        IN IF IsErr(a.v) THEN a ELSE R(Fetch(a.v, Str(t.name), t.ns), a.st)
    [] t.k = "idx"   -> LET a == Eval(t.x, rho, st, cx)
                        IN IF IsErr(a.v) THEN a
                           ELSE LET b == Eval(t.i, rho, a.st, cx)
                                IN IF IsErr(b.v) THEN b ELSE R(Fetch(a.v, b.v, FALSE), b.st)
    [] t.k = "slice" ->
         LET a == Eval(t.x, rho, st, cx)
         IN IF IsErr(a.v) THEN a
            ELSE IF "Dev_SliceToBeforeFrom" \in cx.dv
            THEN LET to == IF t.to.k = "none" THEN R(Length(a.v), a.st) ELSE Eval(t.to, rho, a.st, cx)
                 IN IF IsErr(to.v) THEN to
                    ELSE LET fr == IF t.from.k = "none" THEN R(IntV(0), to.st) ELSE Eval(t.from, rho, to.st, cx)
                         IN IF IsErr(fr.v) THEN fr ELSE R(Slice(a.v, fr.v, to.v), fr.st)
            ELSE LET fr == IF t.from.k = "none" THEN R(IntV(0), a.st) ELSE Eval(t.from, rho, a.st, cx)
                 IN IF IsErr(fr.v) THEN fr
                    ELSE LET to == IF t.to.k = "none" THEN R(Length(a.v), fr.st) ELSE Eval(t.to, rho, fr.st, cx)
                         IN IF IsErr(to.v) THEN to ELSE R(Slice(a.v, fr.v, to.v), to.st)
    [] t.k = "call"  ->
         LET as == EvalList(t.args, 1, <<>>, rho, st, cx)
         IN IF IsErr(as.err) THEN R(as.err, as.st)
            ELSE CallResult(t.name, FnSig[t.name], t.args, as.vs, as.st, rho)
    [] t.k = "meth"  ->
         LET a == Eval(t.x, rho, st, cx)
         IN IF IsErr(a.v) THEN a
            ELSE LET as == EvalList(t.args, 1, <<>>, rho, a.st, cx)
                 IN IF IsErr(as.err) THEN R(as.err, as.st)
                    ELSE IF a.v.t = "nil" THEN R((IF t.ns THEN Nil ELSE Err("nil")), as.st)
                    ELSE IF a.v.t = "ptr" /\ a.v.isnil THEN R(Err("nil"), as.st)
                    ELSE IF a.v.t \notin {"obj", "ptr"} THEN R(Err("type"), as.st)
                    ELSE IF a.v.t = "obj" /\ t.name = "Bump" THEN R(Err("type"), as.st)
                    ELSE LET args == PrepArgs(t.args, as.vs, MethSig[t.name].ps, 1, <<>>)
                             bad == \E i \in 1..Len(args) : IsErr(args[i]) \/ ~DynAssignable(args[i], MethSig[t.name].ps[i])
                         IN IF bad THEN R(Err("type"), as.st)
                            ELSE R(MethApply(t.name, a.v, args),
                                   [as.st EXCEPT !.calls = Append(@, [fn |-> t.name, args |-> args])])
    [] t.k = "len"   -> LET a == Eval(t.x, rho, st, cx)
                        IN IF IsErr(a.v) THEN a ELSE R(Length(a.v), a.st)
    [] t.k = "bi"    -> LET a == Eval(t.x, rho, st, cx)
                        IN IF IsErr(a.v) THEN a
                           \* Dev_BuiltinOverString: a dynamically typed operand that is a string at run time is
                           \* iterated byte by byte (the checker rejects a statically typed string)
                           ELSE IF a.v.t = "str" /\ "Dev_BuiltinOverString" \in cx.dv
                           THEN Loop(t.name, t.body, [i \in 1..Len(a.v.s) |-> IntK("uint8", Ord(Ch(a.v.s, i)))], 1,
                                     (IF t.name \in {"filter", "map"} THEN <<>> ELSE 0), rho, a.st, cx)
                           ELSE IF a.v.t # "arr" THEN R(Err("type"), a.st)
                           ELSE Loop(t.name, t.body, a.v.a, 1,
                                     (IF t.name \in {"filter", "map"} THEN <<>> ELSE 0), rho, a.st, cx)
    [] t.k = "cond"  -> LET c == Eval(t.c, rho, st, cx)
                        IN IF IsErr(c.v) THEN c
                           ELSE IF ~IsBool(c.v) THEN R(Err("type"), c.st)
                           ELSE IF c.v.b THEN Eval(t.a, rho, c.st, cx) ELSE Eval(t.b, rho, c.st, cx)
    [] t.k = "arr"   -> LET as == EvalList(t.xs, 1, <<>>, rho, st, cx)
                        IN IF IsErr(as.err) THEN R(as.err, as.st)
                           ELSE LET st2 == Alloc(as.st, Len(as.vs), cx)
                                IN IF Over(st2, cx) THEN R(Err("budget"), st2) ELSE R(Arr("any", as.vs), st2)
    [] t.k = "map"   -> LET as == EvalList(t.vs, 1, <<>>, rho, st, cx)
                        IN IF IsErr(as.err) THEN R(as.err, as.st)
                           ELSE LET st2 == Alloc(as.st, Len(as.vs), cx)
                                IN IF Over(st2, cx) THEN R(Err("budget"), st2)
                                   ELSE R(MapV("any", t.ks, as.vs), st2)

St0 == [calls |-> <<>>, mem |-> 0]
Cx(L, dv) == [L |-> L, dv |-> dv, els |-> <<>>]
DefaultBudget == 1000000

(* the observable outcome of one evaluation: what C01 compares *)
Outcome(t, rho, L, dv) ==
  LET r == Eval(t, rho, St0, Cx(L, dv))
  IN IF IsErr(r.v)
     THEN [ok |-> FALSE, c |-> r.v.c, calls |-> r.st.calls, need |-> r.st.mem]
     ELSE [ok |-> TRUE, v |-> r.v, calls |-> r.st.calls, need |-> r.st.mem]
=============================================================================

------------------------------ MODULE Optimizer ------------------------------
(***************************************************************************)
(* optimizer/ as tree rewrites (C02): the five passes of Optimize, each    *)
(* applied bottom-up the way ast.Walk calls a visitor's Exit, in the       *)
(* order of optimizer.go:                                                  *)
(*                                                                         *)
(*   inArray   x in [ints]    -> x in <set of ints>   (x statically int)   *)
(*             x in [strings] -> x in <set of strings>                     *)
(*   fold      constant integer arithmetic, string concatenation, arrays   *)
(*             of integer / string literals (to a fixpoint)                *)
(*   inRange   x in a..b      -> x >= a and x <= b    (a, b literals)      *)
(*   constRange a..b          -> <the slice>          (a, b literals)      *)
(* (constExpr, the fifth pass, needs a function table and is exercised on  *)
(* the real library only: family cexpr of C02.)                            *)
(*                                                                         *)
(* Guards(dv): with dv = {} the passes are as designed - a rewrite fires   *)
(* only where it cannot change the meaning (the string-set rewrite needs a *)
(* string on the left, the range rewrite an int on the left and no call in *)
(* it); with a deviation in dv the pass does what the pinned code does.    *)
(* Transparent is the property: optimizing never changes the outcome.      *)
(***************************************************************************)
EXTENDS Types

ISet(ks) == [t |-> "iset", ks |-> ks]
SSet(ks) == [t |-> "sset", ks |-> ks]
FailNode == [k |-> "fail"]          \* the optimizer returned an error (constant division by zero)

SetKids(t, ks) ==
  CASE t.k \in {"nil", "bool", "int", "float", "str", "id", "ptr", "none", "const", "fail"} -> t
    [] t.k \in {"un", "prop", "len"} -> [t EXCEPT !.x = ks[1]]
    [] t.k = "bin"  -> [t EXCEPT !.l = ks[1], !.r = ks[2]]
    [] t.k = "meth" -> [t EXCEPT !.x = ks[1], !.args = SubSeq(ks, 2, Len(ks))]
    [] t.k = "idx"  -> [t EXCEPT !.x = ks[1], !.i = ks[2]]
    [] t.k = "slice" -> LET hasF == t.from.k # "none"  hasT == t.to.k # "none"
                        IN [t EXCEPT !.x = ks[1],
                                     !.from = (IF hasF THEN ks[2] ELSE t.from),
                                     !.to = (IF hasT THEN ks[IF hasF THEN 3 ELSE 2] ELSE t.to)]
    [] t.k = "call" -> [t EXCEPT !.args = ks]
    [] t.k = "bi"   -> [t EXCEPT !.x = ks[1], !.body = ks[2]]
    [] t.k = "cond" -> [t EXCEPT !.c = ks[1], !.a = ks[2], !.b = ks[3]]
    [] t.k = "arr"  -> [t EXCEPT !.xs = ks]
    [] t.k = "map"  -> [t EXCEPT !.vs = ks]

AllInts(xs) == \A i \in 1..Len(xs) : xs[i].k = "int"
AllStrs(xs) == \A i \in 1..Len(xs) : xs[i].k = "str"

PassInArray(n, lty, dv) ==
  IF n.k = "bin" /\ n.op \in {"in", "not in"} /\ n.r.k = "arr" /\ Len(n.r.xs) > 0
  THEN IF lty = "int" /\ AllInts(n.r.xs)
       THEN NBin(n.op, n.l, NConst(ISet([i \in 1..Len(n.r.xs) |-> n.r.xs[i].v])))
       ELSE IF AllStrs(n.r.xs) /\ (lty = "string" \/ "Dev_InArrayStringUntyped" \in dv)
       THEN NBin(n.op, n.l, NConst(SSet([i \in 1..Len(n.r.xs) |-> n.r.xs[i].s])))
       ELSE n
  ELSE n

IntOf(a, b, op) ==
  CASE op = "+" -> a + b [] op = "-" -> a - b [] op = "*" -> a * b
    [] op = "/" -> Trunc(Abs(a), Abs(b)) * Sgn(a) * Sgn(b)
    [] op = "%" -> Sgn(a) * (Abs(a) % Abs(b))
PassFold(n) ==
  CASE n.k = "un" /\ n.op \in {"-", "+"} /\ n.x.k = "int" -> NInt(IF n.op = "-" THEN -n.x.v ELSE n.x.v)
    [] n.k = "bin" /\ n.op \in {"+", "-", "*", "/", "%"} /\ n.l.k = "int" /\ n.r.k = "int" ->
         IF n.op \in {"/", "%"} /\ n.r.v = 0 THEN FailNode ELSE NInt(IntOf(n.l.v, n.r.v, n.op))
    [] n.k = "bin" /\ n.op = "+" /\ n.l.k = "str" /\ n.r.k = "str" -> NStr(n.l.s \o n.r.s)
    [] n.k = "arr" /\ Len(n.xs) > 0 /\ AllInts(n.xs) -> NConst(Arr("int", [i \in 1..Len(n.xs) |-> IntV(n.xs[i].v)]))
    [] n.k = "arr" /\ Len(n.xs) > 0 /\ AllStrs(n.xs) -> NConst(Arr("string", [i \in 1..Len(n.xs) |-> Str(n.xs[i].s)]))
    [] OTHER -> n

PassInRange(n, lty, dv) ==
  IF n.k = "bin" /\ n.op \in {"in", "not in"} /\ n.r.k = "bin" /\ n.r.op = ".." /\ n.r.l.k = "int" /\ n.r.r.k = "int"
     /\ ("Dev_InRangeRewrite" \in dv \/ (lty = "int" /\ ~HasCall(n.l)))
  THEN LET rw == NBin("and", NBin(">=", n.l, n.r.l), NBin("<=", n.l, n.r.r))
       IN IF n.op = "in" THEN rw ELSE NUn("not", rw)
  ELSE n

PassConstRange(n) ==
  IF n.k = "bin" /\ n.op = ".." /\ n.l.k = "int" /\ n.r.k = "int" /\ RangeSize(n.l.v, n.r.v) <= 64
  THEN NConst(RangeVal(n.l.v, n.r.v))
  ELSE n

(* one walk: children first (Exit is called bottom-up), then the pass at the node; *)
(* ctx is the collection type of the innermost enclosing closure                   *)
RECURSIVE Walk1(_, _, _, _)
Walk1(t, ctx, pass, dv) ==
  LET ks == Kids(t)
      nk == [i \in 1..Len(ks) |-> Walk1(ks[i], (IF t.k = "bi" /\ i = 2 THEN TypeOf(t.x, ctx) ELSE ctx), pass, dv)]
      n == SetKids(t, nk)
      lty == IF n.k = "bin" THEN TypeOf(n.l, ctx) ELSE ""
  IN CASE pass = "inArray" -> PassInArray(n, lty, dv)
       [] pass = "fold" -> PassFold(n)
       [] pass = "inRange" -> PassInRange(n, lty, dv)
       [] pass = "constRange" -> PassConstRange(n)

RECURSIVE FoldFix(_, _, _)
FoldFix(t, dv, limit) == LET t2 == Walk1(t, "", "fold", dv)
                         IN IF t2 = t \/ limit = 0 THEN t2 ELSE FoldFix(t2, dv, limit - 1)

RECURSIVE HasFail(_)
HasFail(t) == t.k = "fail" \/ \E i \in 1..Len(Kids(t)) : HasFail(Kids(t)[i])

Optimize(t, dv) ==
  LET a == Walk1(t, "", "inArray", dv)
      b == FoldFix(a, dv, 20)
      c == Walk1(b, "", "inRange", dv)
      d == Walk1(c, "", "constRange", dv)
  IN IF HasFail(b) THEN [ok |-> FALSE] ELSE [ok |-> TRUE, t |-> d]

(* observational equality: numbers equal in kind and value, sequences element by element *)
RECURSIVE ObsEqV(_, _)
ObsEqV(a, b) ==
  IF a.t # b.t THEN FALSE
  ELSE CASE a.t = "arr" -> Len(a.a) = Len(b.a) /\ \A i \in 1..Len(a.a) : ObsEqV(a.a[i], b.a[i])
         [] a.t = "map" -> a.mk = b.mk /\ \A i \in 1..Len(a.mv) : ObsEqV(a.mv[i], b.mv[i])
         [] OTHER -> a = b
SameOutcome(x, y) == x.ok = y.ok /\ (x.ok => ObsEqV(x.v, y.v)) /\ x.calls = y.calls

(* C02 on the design: for an environment rho, optimizing does not change the outcome; *)
(* the optimizer fails only on a constant division or modulo by zero                   *)
TransparentFor(t, rho, L, dv) ==
  LET o == Optimize(t, dv)
  IN IF ~o.ok THEN HasConstDivZero(t)
     ELSE LET x == Outcome(t, rho, L, {})  y == Outcome(o.t, rho, L, {})
          IN (x.ok \/ x.c # "outside") /\ (y.ok \/ y.c # "outside") => SameOutcome(x, y)
=============================================================================

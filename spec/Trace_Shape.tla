---------------------------- MODULE Trace_Shape ----------------------------
(***************************************************************************)
(* Trace validation against the stack-shape machine (VMShape.tla).         *)
(*                                                                         *)
(* Every run of the real VM that the verif hook sees is recorded as one    *)
(* line                                                                    *)
(*   [run, origin, prog:[code, consts:<<[t, size]>>],                      *)
(*    events: <<<<pp, ip, depth, scopes>>>>, complete]                     *)
(* (one event per executed instruction, after the state change; complete   *)
(* = the loop of VM.Run ran off the end of the code, i.e. the run did not  *)
(* fail).  The recorder is value-free, so the lines can come from any      *)
(* program and environment - they come from the repository's own test      *)
(* suite, run with the hooks on (lib/checks.py shape_stage).               *)
(*                                                                         *)
(* A run is accepted iff its program is well-formed (VM!WellFormed on the  *)
(* real bytes), every event is a VMShape!ShapeNext step of the shape       *)
(* reached so far (the instruction at the logged pp is the one the shape   *)
(* machine is at; the logged ip, depth and scope depth are among its       *)
(* successors), and a complete run ends clean.  A failed run is            *)
(* constrained up to its last event only.  A rejection is printed as a     *)
(* JSON line and validation continues with the next run.                   *)
(***************************************************************************)
EXTENDS VMShape, Json

CONSTANT TraceFile
Trace == ndJsonDeserialize(TraceFile)

VARIABLES l,      \* index of the run being validated
          j,      \* events of run l consumed so far (-1: program not yet judged)
          sh,     \* shape reached
          nbad
svars == <<l, j, sh, nbad>>

Rn == Trace[l]
P  == [code |-> Rn.prog.code, consts |-> Rn.prog.consts]

Report(field, want, got) ==
  PrintT(ToJson([kind |-> "mismatch", run |-> Rn.run, src |-> Rn.origin, mode |-> "shape", at |-> j, field |-> field,
                 want |-> want, got |-> got]))
NextRun(bad) == l' = l + 1 /\ j' = -1 /\ sh' = Sh(0, 0, 0) /\ nbad' = nbad + (IF bad THEN 1 ELSE 0)

SInit == l = 1 /\ j = -1 /\ sh = Sh(0, 0, 0) /\ nbad = 0

SBegin ==
  /\ l <= Len(Trace) /\ j = -1
  /\ IF ~WellFormed(P) THEN Report("ill-formed-program", 0, 0) /\ NextRun(TRUE)
     ELSE j' = 0 /\ UNCHANGED <<l, sh, nbad>>

SStep ==
  /\ l <= Len(Trace) /\ j >= 0 /\ j < Len(Rn.events)
  /\ LET e == Rn.events[j + 1]
         got == Sh(e[2], e[3], e[4])
     IN IF sh.ip >= Len(P.code) THEN Report("step-after-the-end", sh.ip, e[1]) /\ NextRun(TRUE)
        ELSE IF e[1] # sh.ip THEN Report("pp", sh.ip, e[1]) /\ NextRun(TRUE)
        ELSE IF sh.depth < Needs(P, sh.ip) THEN Report("underflow:" \o OpAt(P, sh.ip), Needs(P, sh.ip), sh.depth) /\ NextRun(TRUE)
        ELSE IF got \notin ShapeNext(P, sh)
        THEN Report("not-a-step-of:" \o OpAt(P, sh.ip), sh.depth, e[3]) /\ NextRun(TRUE)
        ELSE sh' = got /\ j' = j + 1 /\ UNCHANGED <<l, nbad>>

SEnd ==
  /\ l <= Len(Trace) /\ j = Len(Rn.events)
  /\ IF Rn.complete /\ ~ShapeCleanEnd(P, sh)
     THEN Report("unclean-end", (IF Len(P.code) = 0 THEN 0 ELSE 1), sh.depth + sh.scopes) /\ NextRun(TRUE)
     ELSE NextRun(FALSE)

SDone == /\ l = Len(Trace) + 1 /\ j = -1
         /\ PrintT(ToJson([kind |-> "done", runs |-> Len(Trace), rejected |-> nbad]))
         /\ j' = -2 /\ UNCHANGED <<l, sh, nbad>>

SNext == SBegin \/ SStep \/ SEnd \/ SDone
SSpec == SInit /\ [][SNext]_svars

(* evaluated on every state of every validated run *)
SNoNegativeDepth == sh.depth >= 0 /\ sh.scopes >= 0
=============================================================================

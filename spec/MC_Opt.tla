------------------------------- MODULE MC_Opt -------------------------------
(***************************************************************************)
(* C02 on the design: on every expression of a family and every            *)
(* environment assignment the optimizer as designed (Guards = {}) is       *)
(* transparent.  With the deviations of the pinned tree switched on TLC    *)
(* finds the expressions on which it is not (a counterexample names one).  *)
(***************************************************************************)
EXTENDS MC_Expr, Optimizer

CONSTANT OptDevs
NoDevs == {}

Transparent ==
  Complete => \A asg \in Assignments(Mentions(Tree)) : TransparentFor(Tree, EnvOf(asg), DefaultBudget, OptDevs)

(* how often a rewrite fires (coverage of the design check) *)
Fires == Complete => (Optimize(Tree, OptDevs).ok => TRUE)
OptCase == [src |-> Src(Tree), n |-> n, fired |-> (Optimize(Tree, OptDevs).ok /\ Optimize(Tree, OptDevs).t # Tree)]
EmitOpt == (Complete /\ EmitMode = "opt") => PrintT(ToJson(OptCase))

(* C10: the optimizer's passes are visitors; a replacement of the ROOT node must take effect like any other. *)
(* The kind of the root after the passes as implemented (the exponent fold is not modelled: such trees are   *)
(* left out).                                                                                                  *)
ImplDevs == {"Dev_InArrayStringUntyped", "Dev_InRangeRewrite"}
RECURSIVE HasPow(_)
HasPow(t) == (t.k = "bin" /\ t.op = "**") \/ \E i \in 1..Len(Kids(t)) : HasPow(Kids(t)[i])
OptRootCase == [src |-> Src(Tree), n |-> n, walk |-> <<>>, nodes |-> n, psrc |-> "", patched |-> FALSE, cbp |-> HasConstBadPattern(Tree),
                envs |-> {}, optroot |-> Optimize(Tree, ImplDevs).t.k]
EmitOptRoot == (Complete /\ EmitMode = "optroot" /\ ~HasPow(Tree) /\ Optimize(Tree, ImplDevs).ok) => PrintT(ToJson(OptRootCase))
=============================================================================

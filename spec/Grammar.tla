------------------------------ MODULE Grammar ------------------------------
(***************************************************************************)
(* The reference grammar of expr (C11, C13): tokens, the binding-power and *)
(* associativity tables, the printer that writes a syntax tree with only   *)
(* the parentheses the tables require (Min), the printer that writes every *)
(* operand in parentheses (Full), and the reference parser RefParse that   *)
(* assigns to every token sequence its tree or rejects it, naming the      *)
(* token at which the sequence stops being a sentence (DESIGN.md app. F).  *)
(*                                                                         *)
(* Trees are those of Sem.tla; a map literal's keys are nodes here (GMap), *)
(* because the grammar admits a parenthesised expression as a key.         *)
(***************************************************************************)
EXTENDS Sem

---------------------------------------------------------------------------
(* Tokens *)
Tk(k, v) == [k |-> k, v |-> v]
TId(v)  == Tk("id", v)
TNum(v) == Tk("num", v)
TStr(v) == Tk("str", v)
TOp(v)  == Tk("op", v)
TBr(v)  == Tk("br", v)
EOFTok  == Tk("eof", "")

WordOps == {"in", "or", "and", "matches", "contains", "startsWith", "endsWith", "not"}

---------------------------------------------------------------------------
(* The tables: parser/parser.go unaryOperators, binaryOperators *)
BPrec(op) ==
  CASE op \in {"or", "||"} -> 10
    [] op \in {"and", "&&"} -> 15
    [] op \in {"==", "!=", "<", ">", ">=", "<=", "not in", "in", "matches", "contains", "startsWith", "endsWith"} -> 20
    [] op = ".." -> 25
    [] op \in {"+", "-"} -> 30
    [] op \in {"*", "/", "%"} -> 60
    [] op = "**" -> 70
BinOpsAll == {"or", "||", "and", "&&", "==", "!=", "<", ">", ">=", "<=", "not in", "in", "matches", "contains",
              "startsWith", "endsWith", "..", "+", "-", "*", "/", "%", "**"}
RightAssoc(op) == op = "**"
UnOpsAll == {"not", "!", "-", "+"}
UPrec(op) == IF op \in {"not", "!"} THEN 50 ELSE 500
BuiltinNames == {"len", "all", "none", "any", "one", "filter", "map", "count"}

---------------------------------------------------------------------------
(* Trees with node keys *)
GMap(kn, vs) == [k |-> "map", kn |-> kn, vs |-> vs]

RECURSIVE Norm(_)
NormList(ts) == [i \in 1..Len(ts) |-> Norm(ts[i])]
Norm(t) ==
  CASE t.k \in {"nil", "bool", "int", "float", "str", "id", "ptr", "none"} -> t
    [] t.k = "un"   -> NUn(t.op, Norm(t.x))
    [] t.k = "bin"  -> NBin(t.op, Norm(t.l), Norm(t.r))
    [] t.k = "prop" -> NProp(Norm(t.x), t.name, t.ns)
    [] t.k = "idx"  -> NIdx(Norm(t.x), Norm(t.i))
    [] t.k = "slice" -> NSlice(Norm(t.x), Norm(t.from), Norm(t.to))
    [] t.k = "meth" -> NMeth(Norm(t.x), t.name, NormList(t.args), t.ns)
    [] t.k = "call" -> NCall(t.name, NormList(t.args))
    [] t.k = "len"  -> NLen(Norm(t.x))
    [] t.k = "bi"   -> NBi(t.name, Norm(t.x), Norm(t.body))
    [] t.k = "cond" -> NCond(Norm(t.c), Norm(t.a), Norm(t.b))
    [] t.k = "arr"  -> NArr(NormList(t.xs))
    [] t.k = "map"  -> GMap([i \in 1..Len(t.ks) |-> NStr(t.ks[i])], NormList(t.vs))

---------------------------------------------------------------------------
(* The printers.                                                           *)
(*                                                                         *)
(* (full is the printing mode: "min", "full" or "sticky")                      *)
(* Opn(t, minp, rp, full): the tokens of t as an operand that must be      *)
(* absorbed by a sub-parse of minimum precedence minp and is followed, at  *)
(* the same bracket level, by a binary operator of precedence rp (0: by    *)
(* none).  Rules for the minimal printer (mode "min"):                     *)
(*  - a binary node of precedence q is bare iff q >= minp; its left        *)
(*    operand gets minp = q (q+1 under a right-associative operator) and   *)
(*    is followed by q; its right operand gets q+1 (q) and inherits rp;    *)
(*  - a unary node of precedence u is bare iff rp < u: `not` (50) would    *)
(*    otherwise capture a following `*`; its operand gets minp = u;        *)
(*  - a conditional is bare only in a slot parsed at precedence 0 (Top);   *)
(*  - a literal, unary, binary or conditional base of a postfix step is    *)
(*    parenthesised; a postfix step that is not nil-safe on a nil-safe     *)
(*    chain parenthesises the chain (the parser's nil-safe flag is sticky).*)
(***************************************************************************)
PAR(ts) == <<TBr("(")>> \o ts \o <<TBr(")")>>

RECURSIVE Opn(_, _, _, _), TopP(_, _), Atom(_, _), TopList(_, _, _), Pairs(_, _, _, _)

PBase(x, stepNs, full) ==
  IF PostfixBase(x) /\ (ChainNS(x) => stepNs) THEN Atom(x, full) ELSE PAR(TopP(x, full))

(* the step operator: in mode "sticky" a nil-safe step on a chain that is     *)
(* already nil-safe is written with a plain dot (the flag is sticky)         *)
StepOp(t, full) == TOp(IF t.ns /\ ~(full = "sticky" /\ PostfixBase(t.x) /\ ChainNS(t.x)) THEN "?." ELSE ".")

TopList(ts, i, full) ==
  IF i > Len(ts) THEN <<>>
  ELSE TopP(ts[i], full) \o (IF i < Len(ts) THEN <<TOp(",")>> ELSE <<>>) \o TopList(ts, i + 1, full)

Pairs(ks, vs, i, full) ==
  IF i > Len(ks) THEN <<>>
  ELSE <<TStr(ks[i]), TOp(":")>> \o TopP(vs[i], full) \o (IF i < Len(ks) THEN <<TOp(",")>> ELSE <<>>)
       \o Pairs(ks, vs, i + 1, full)

Atom(t, full) ==
  CASE t.k = "nil"   -> <<TId("nil")>>
    [] t.k = "bool"  -> <<TId(IF t.b THEN "true" ELSE "false")>>
    [] t.k = "int"   -> <<TNum(ToString(t.v))>>
    [] t.k = "float" -> <<TNum(t.txt)>>
    [] t.k = "str"   -> <<TStr(t.s)>>
    [] t.k = "id"    -> <<TId(t.name)>>
    [] t.k = "ptr"   -> <<TOp("#")>>
    [] t.k = "prop"  -> PBase(t.x, t.ns, full) \o <<StepOp(t, full), TId(t.name)>>
    [] t.k = "meth"  -> PBase(t.x, t.ns, full) \o <<StepOp(t, full), TId(t.name), TBr("(")>>
                          \o TopList(t.args, 1, full) \o <<TBr(")")>>
    [] t.k = "idx"   -> PBase(t.x, TRUE, full) \o <<TBr("[")>> \o TopP(t.i, full) \o <<TBr("]")>>
    [] t.k = "slice" -> PBase(t.x, TRUE, full) \o <<TBr("[")>>
                          \o (IF t.from.k = "none" THEN <<>> ELSE TopP(t.from, full)) \o <<TOp(":")>>
                          \o (IF t.to.k = "none" THEN <<>> ELSE TopP(t.to, full)) \o <<TBr("]")>>
    [] t.k = "call"  -> <<TId(t.name), TBr("(")>> \o TopList(t.args, 1, full) \o <<TBr(")")>>
    [] t.k = "len"   -> <<TId("len"), TBr("(")>> \o TopP(t.x, full) \o <<TBr(")")>>
    [] t.k = "bi"    -> <<TId(t.name), TBr("(")>> \o TopP(t.x, full) \o <<TOp(","), TBr("{")>>
                          \o TopP(t.body, full) \o <<TBr("}"), TBr(")")>>
    [] t.k = "arr"   -> <<TBr("[")>> \o TopList(t.xs, 1, full) \o <<TBr("]")>>
    [] t.k = "map"   -> <<TBr("{")>> \o Pairs(t.ks, t.vs, 1, full) \o <<TBr("}")>>

IsAtomic(t) == t.k \notin {"un", "bin", "cond"}

Opn(t, minp, rp, full) ==
  CASE t.k = "bin" ->
         LET q == BPrec(t.op)
             ra == RightAssoc(t.op)
             body(rpp) == Opn(t.l, (IF ra THEN q + 1 ELSE q), q, full) \o <<TOp(t.op)>>
                          \o Opn(t.r, (IF ra THEN q ELSE q + 1), rpp, full)
         IN IF full # "full" /\ q >= minp THEN body(rp) ELSE PAR(body(0))
    [] t.k = "un" ->
         LET u == UPrec(t.op)
             body(rpp) == <<TOp(t.op)>> \o Opn(t.x, u, rpp, full)
         IN IF full # "full" /\ rp < u THEN body(rp) ELSE PAR(body(0))
    [] t.k = "cond" -> PAR(TopP(t, full))
    [] OTHER -> Atom(t, full)

TopOpn(t, full) ==
  CASE t.k = "bin" -> LET q == BPrec(t.op)  ra == RightAssoc(t.op)
                      IN Opn(t.l, (IF ra THEN q + 1 ELSE q), q, full) \o <<TOp(t.op)>>
                         \o Opn(t.r, (IF ra THEN q ELSE q + 1), 0, full)
    [] t.k = "un"  -> <<TOp(t.op)>> \o Opn(t.x, UPrec(t.op), 0, full)
    [] OTHER -> Atom(t, full)

(* a slot parsed at precedence 0: the whole text, the inside of brackets,  *)
(* arguments, elements, bounds, closure bodies, both branches              *)
TopP(t, full) ==
  IF t.k = "cond"
  THEN (IF t.c.k = "cond" THEN PAR(TopP(t.c, full)) ELSE TopOpn(t.c, full))
       \o (IF full = "elvis" /\ t.c = t.a                 \* the short form `c ?: b` of `c ? c : b`
           THEN <<TOp("?"), TOp(":")>>
           ELSE <<TOp("?")>> \o TopP(t.a, full) \o <<TOp(":")>>)
       \o TopP(t.b, full)
  ELSE TopOpn(t, full)

Min(t)    == TopP(t, "min")
Full(t)   == TopP(t, "full")
Sticky(t) == TopP(t, "sticky")
Elvis(t)  == TopP(t, "elvis")

---------------------------------------------------------------------------
(* Text of a token sequence under a layout.                                *)
TokText(tk) == IF tk.k = "str" THEN "\"" \o tk.v \o "\"" ELSE tk.v

IsWordCh(c) == c \in {"a", "b", "c", "d", "e", "f", "g", "h", "i", "j", "k", "l", "m", "n", "o", "p", "q", "r", "s",
                      "t", "u", "v", "w", "x", "y", "z", "A", "B", "C", "D", "E", "F", "G", "H", "I", "J", "K", "L",
                      "M", "N", "O", "P", "Q", "R", "S", "T", "U", "V", "W", "X", "Y", "Z", "_", "$",
                      "0", "1", "2", "3", "4", "5", "6", "7", "8", "9"}
FirstCh(s) == SubSeq(s, 1, 1)
LastCh(s)  == SubSeq(s, Len(s), Len(s))
SymCh(c) == c \in {"&", "|", "!", "=", "*", "<", ">", ".", "?", ":", "+", "-", "/", "%", "#"}

(* must two adjacent tokens be separated for the text to lex as these two? *)
NeedSpace(a, b) ==
  LET x == LastCh(TokText(a))  y == FirstCh(TokText(b))
  IN \/ (IsWordCh(x) /\ IsWordCh(y))
     \/ (IsWordCh(x) /\ y = ".")  \/ (x = "." /\ IsWordCh(y) /\ a.k = "num")
     \/ (a.k = "num" /\ y = ".")  \/ (x = "." /\ b.k = "num")
     \/ (SymCh(x) /\ SymCh(y))

RECURSIVE Join(_, _, _)
(* seps: a non-empty sequence of separator strings used cyclically *)
Join(toks, i, seps) ==
  IF i > Len(toks) THEN ""
  ELSE TokText(toks[i])
       \o (IF i = Len(toks) THEN ""
           ELSE LET sep == seps[((i - 1) % Len(seps)) + 1]
                IN IF sep = "" /\ NeedSpace(toks[i], toks[i + 1]) THEN " " ELSE sep)
       \o Join(toks, i + 1, seps)

(* the (line, column) of token k under the same layout: lines from 1, columns  *)
(* from 0; `pre` is the text written before the first token                    *)
RECURSIVE AdvText(_, _, _, _)
AdvText(str, i, line, col) ==
  IF i > Len(str) THEN <<line, col>>
  ELSE IF SubSeq(str, i, i) = "\n" THEN AdvText(str, i + 1, line + 1, 0) ELSE AdvText(str, i + 1, line, col + 1)
RECURSIVE PosFrom(_, _, _, _, _, _)
PosFrom(toks, i, seps, k, line, col) ==
  IF i = k THEN [line |-> line, col |-> col]
  ELSE LET a == AdvText(TokText(toks[i]), 1, line, col)
           sep0 == seps[((i - 1) % Len(seps)) + 1]
           sep == IF sep0 = "" /\ NeedSpace(toks[i], toks[i + 1]) THEN " " ELSE sep0
           b == AdvText(sep, 1, a[1], a[2])
       IN PosFrom(toks, i + 1, seps, k, b[1], b[2])
PosOfTok(toks, pre, seps, k) == LET a == AdvText(pre, 1, 1, 0) IN PosFrom(toks, 1, seps, k, a[1], a[2])
WildSeps == <<" ", "\n", "\t ", "", "  \n ", "", "\f", "\r\n">>
PosMin(toks, k)  == PosOfTok(toks, "", <<"">>, k)
PosWild(toks, k) == PosOfTok(toks, " ", WildSeps, k)

(* the two-word operator written with other white space between its words *)
SpreadNotIn(toks) == [i \in 1..Len(toks) |-> IF toks[i] = TOp("not in") THEN TOp("not \n\tin") ELSE toks[i]]
TextMin(toks)    == Join(toks, 1, <<"">>)
TextSpaced(toks) == Join(toks, 1, <<" ">>)
TextWild(toks)   == " " \o Join(toks, 1, WildSeps) \o "\n"
TextWild2(toks)  == Join(SpreadNotIn(toks), 1, <<"\t", "\f ", " \r", "\n\n">>)

---------------------------------------------------------------------------
(* The reference parser: precedence climbing over the tables above.        *)
(* Results: [ok |-> TRUE, node, pos] (pos: index of the next token) or     *)
(* [ok |-> FALSE, at] (at: index of the token at which the sequence stops  *)
(* being a sentence; Len(toks)+1 stands for the end of input).             *)
Fail(at) == [ok |-> FALSE, at |-> at]
OkR(node, pos) == [ok |-> TRUE, node |-> node, pos |-> pos]
At(toks, i) == IF i <= Len(toks) THEN toks[i] ELSE EOFTok
IsOp(tk, v) == tk.k = "op" /\ tk.v = v
IsBr(tk, v) == tk.k = "br" /\ tk.v = v
CapAt(toks, i) == IF i > Len(toks) + 1 THEN Len(toks) + 1 ELSE i

NumNode(txt) == IF \E n \in 0..99 : ToString(n) = txt
                THEN NInt(CHOOSE n \in 0..99 : ToString(n) = txt)
                ELSE CASE txt = "0.5" -> NFloat("0.5", 1, 1) [] txt = "1.5" -> NFloat("1.5", 3, 1)
                       [] txt = "2.0" -> NFloat("2.0", 2, 0) [] OTHER -> NFloat(txt, 0, 0)

ValidName(tk) == tk.k = "id" \/ (tk.k = "op" /\ tk.v \in WordOps)

RECURSIVE PExpr(_, _, _, _), PBinLoop(_, _, _, _, _), PPrimary(_, _, _), PPrimExpr(_, _, _), PIdent(_, _, _),
          PPostfix(_, _, _, _, _), PCondLoop(_, _, _, _), PArgsLoop(_, _, _, _), PArrLoop(_, _, _, _),
          PMapLoop(_, _, _, _, _), PClosure(_, _, _)

PExpr(toks, pos, prec, depth) ==
  LET l == PPrimary(toks, pos, depth)
  IN IF ~l.ok THEN l
     ELSE LET b == PBinLoop(toks, l.node, l.pos, prec, depth)
          IN IF ~b.ok THEN b
             ELSE IF prec = 0 THEN PCondLoop(toks, b.node, b.pos, depth) ELSE b

PBinLoop(toks, left, pos, prec, depth) ==
  LET tk == At(toks, pos)
  IN IF tk.k = "op" /\ tk.v \in BinOpsAll /\ BPrec(tk.v) >= prec
     THEN LET q == BPrec(tk.v)
              r == PExpr(toks, pos + 1, (IF RightAssoc(tk.v) THEN q ELSE q + 1), depth)
          IN IF ~r.ok THEN r ELSE PBinLoop(toks, NBin(tk.v, left, r.node), r.pos, prec, depth)
     ELSE OkR(left, pos)

PCondLoop(toks, node, pos, depth) ==
  IF ~IsOp(At(toks, pos), "?") THEN OkR(node, pos)
  ELSE IF IsOp(At(toks, pos + 1), ":")
  THEN LET e2 == PExpr(toks, pos + 2, 0, depth)
       IN IF ~e2.ok THEN e2 ELSE PCondLoop(toks, NCond(node, node, e2.node), e2.pos, depth)
  ELSE LET e1 == PExpr(toks, pos + 1, 0, depth)
       IN IF ~e1.ok THEN e1
          ELSE IF ~IsOp(At(toks, e1.pos), ":") THEN Fail(e1.pos)
          ELSE LET e2 == PExpr(toks, e1.pos + 1, 0, depth)
               IN IF ~e2.ok THEN e2 ELSE PCondLoop(toks, NCond(node, e1.node, e2.node), e2.pos, depth)

PPrimary(toks, pos, depth) ==
  LET tk == At(toks, pos)
  IN IF tk.k = "op" /\ tk.v \in UnOpsAll
     THEN LET e == PExpr(toks, pos + 1, UPrec(tk.v), depth)
          IN IF ~e.ok THEN e ELSE PPostfix(toks, NUn(tk.v, e.node), e.pos, FALSE, depth)
     ELSE IF IsBr(tk, "(")
     THEN LET e == PExpr(toks, pos + 1, 0, depth)
          IN IF ~e.ok THEN e
             ELSE IF IsBr(At(toks, e.pos), ")") THEN PPostfix(toks, e.node, e.pos + 1, FALSE, depth)
             ELSE Fail(e.pos)
     ELSE IF tk.k = "op" /\ tk.v \in {"#", "."}
     THEN IF depth > 0 THEN PPostfix(toks, NPtr, (IF tk.v = "#" THEN pos + 1 ELSE pos), FALSE, depth)
          ELSE Fail(pos)
     ELSE PPrimExpr(toks, pos, depth)

PPrimExpr(toks, pos, depth) ==
  LET tk == At(toks, pos)
  IN CASE tk.k = "id" ->
            (CASE tk.v = "true"  -> OkR(NBool(TRUE), pos + 1)
               [] tk.v = "false" -> OkR(NBool(FALSE), pos + 1)
               [] tk.v = "nil"   -> OkR(NNil, pos + 1)
               [] OTHER -> LET r == PIdent(toks, pos, depth)
                           IN IF ~r.ok THEN r ELSE PPostfix(toks, r.node, r.pos, FALSE, depth))
       [] tk.k = "num" -> OkR(NumNode(tk.v), pos + 1)
       [] tk.k = "str" -> OkR(NStr(tk.v), pos + 1)
       [] IsBr(tk, "[") -> LET r == PArrLoop(toks, pos + 1, <<>>, depth)
                           IN IF ~r.ok THEN r ELSE PPostfix(toks, NArr(r.node), r.pos, FALSE, depth)
       [] IsBr(tk, "{") -> LET r == PMapLoop(toks, pos + 1, <<>>, <<>>, depth)
                           IN IF ~r.ok THEN r ELSE PPostfix(toks, r.node, r.pos, FALSE, depth)
       [] OTHER -> Fail(pos)

(* toks[pos] is an identifier that is not a literal word *)
PIdent(toks, pos, depth) ==
  LET name == toks[pos].v
  IN IF ~IsBr(At(toks, pos + 1), "(") THEN OkR(NId(name), pos + 1)
     ELSE IF name \in BuiltinNames
     THEN LET e == PExpr(toks, pos + 2, 0, depth)
          IN IF ~e.ok THEN e
             ELSE IF name = "len"
             THEN (IF IsBr(At(toks, e.pos), ")") THEN OkR(NLen(e.node), e.pos + 1) ELSE Fail(e.pos))
             ELSE IF ~IsOp(At(toks, e.pos), ",") THEN Fail(e.pos)
             ELSE LET c == PClosure(toks, e.pos + 1, depth)
                  IN IF ~c.ok THEN c
                     ELSE IF IsBr(At(toks, c.pos), ")") THEN OkR(NBi(name, e.node, c.node), c.pos + 1)
                     ELSE Fail(c.pos)
     ELSE LET a == PArgsLoop(toks, pos + 2, <<>>, depth)
          IN IF ~a.ok THEN a ELSE OkR(NCall(name, a.node), a.pos)

PClosure(toks, pos, depth) ==
  IF ~IsBr(At(toks, pos), "{") THEN Fail(pos)
  ELSE LET e == PExpr(toks, pos + 1, 0, depth + 1)
       IN IF ~e.ok THEN e
          ELSE IF IsBr(At(toks, e.pos), "}") THEN OkR(e.node, e.pos + 1) ELSE Fail(e.pos)

(* after "(": arguments separated by commas, no trailing comma; node = the sequence *)
PArgsLoop(toks, pos, acc, depth) ==
  IF IsBr(At(toks, pos), ")") THEN OkR(acc, pos + 1)
  ELSE IF acc # <<>> /\ ~IsOp(At(toks, pos), ",") THEN Fail(pos)
  ELSE LET e == PExpr(toks, (IF acc # <<>> THEN pos + 1 ELSE pos), 0, depth)
       IN IF ~e.ok THEN e ELSE PArgsLoop(toks, e.pos, Append(acc, e.node), depth)

(* after "[": elements, one trailing comma allowed *)
PArrLoop(toks, pos, acc, depth) ==
  IF IsBr(At(toks, pos), "]") THEN OkR(acc, pos + 1)
  ELSE IF acc # <<>> /\ ~IsOp(At(toks, pos), ",") THEN Fail(pos)
  ELSE IF acc # <<>> /\ IsBr(At(toks, pos + 1), "]") THEN OkR(acc, pos + 2)
  ELSE LET e == PExpr(toks, (IF acc # <<>> THEN pos + 1 ELSE pos), 0, depth)
       IN IF ~e.ok THEN e ELSE PArrLoop(toks, e.pos, Append(acc, e.node), depth)

(* after "{": pairs key ":" value, one trailing comma allowed *)
PMapLoop(toks, pos, kn, vs, depth) ==
  IF IsBr(At(toks, pos), "}") THEN OkR(GMap(kn, vs), pos + 1)
  ELSE IF kn # <<>> /\ ~IsOp(At(toks, pos), ",") THEN Fail(pos)
  ELSE IF kn # <<>> /\ IsBr(At(toks, pos + 1), "}") THEN OkR(GMap(kn, vs), pos + 2)
  ELSE LET p == IF kn # <<>> THEN pos + 1 ELSE pos
           tk == At(toks, p)
           key == IF tk.k \in {"num", "str", "id"} THEN OkR(NStr(tk.v), p + 1)
                  ELSE IF IsBr(tk, "(") THEN PExpr(toks, p, 0, depth)
                  ELSE Fail(p)
       IN IF ~key.ok THEN key
          ELSE IF ~IsOp(At(toks, key.pos), ":") THEN Fail(key.pos)
          ELSE LET v == PExpr(toks, key.pos + 1, 0, depth)
               IN IF ~v.ok THEN v ELSE PMapLoop(toks, v.pos, Append(kn, key.node), Append(vs, v.node), depth)

(* postfix steps; ns: a nil-safe step occurred earlier in this chain *)
PPostfix(toks, node, pos, ns, depth) ==
  LET tk == At(toks, pos)
  IN IF tk.k = "op" /\ tk.v \in {".", "?."}
     THEN LET ns2 == ns \/ tk.v = "?."
              nm == At(toks, pos + 1)
          IN IF ~ValidName(nm) THEN Fail(CapAt(toks, pos + 2))
             ELSE IF IsBr(At(toks, pos + 2), "(")
             THEN LET a == PArgsLoop(toks, pos + 3, <<>>, depth)
                  IN IF ~a.ok THEN a ELSE PPostfix(toks, NMeth(node, nm.v, a.node, ns2), a.pos, ns2, depth)
             ELSE PPostfix(toks, NProp(node, nm.v, ns2), pos + 2, ns2, depth)
     ELSE IF IsBr(tk, "[")
     THEN IF IsOp(At(toks, pos + 1), ":")
          THEN IF IsBr(At(toks, pos + 2), "]")
               THEN PPostfix(toks, NSlice(node, NNone, NNone), pos + 3, ns, depth)
               ELSE LET to == PExpr(toks, pos + 2, 0, depth)
                    IN IF ~to.ok THEN to
                       ELSE IF IsBr(At(toks, to.pos), "]")
                       THEN PPostfix(toks, NSlice(node, NNone, to.node), to.pos + 1, ns, depth)
                       ELSE Fail(to.pos)
          ELSE LET from == PExpr(toks, pos + 1, 0, depth)
               IN IF ~from.ok THEN from
                  ELSE IF IsOp(At(toks, from.pos), ":")
                  THEN IF IsBr(At(toks, from.pos + 1), "]")
                       THEN PPostfix(toks, NSlice(node, from.node, NNone), from.pos + 2, ns, depth)
                       ELSE LET to == PExpr(toks, from.pos + 1, 0, depth)
                            IN IF ~to.ok THEN to
                               ELSE IF IsBr(At(toks, to.pos), "]")
                               THEN PPostfix(toks, NSlice(node, from.node, to.node), to.pos + 1, ns, depth)
                               ELSE Fail(to.pos)
                  ELSE IF IsBr(At(toks, from.pos), "]")
                  THEN PPostfix(toks, NIdx(node, from.node), from.pos + 1, ns, depth)
                  ELSE Fail(from.pos)
     ELSE OkR(node, pos)

RefParse(toks) ==
  LET r == PExpr(toks, 1, 0, 0)
  IN IF ~r.ok THEN Fail(CapAt(toks, r.at))
     ELSE IF r.pos = Len(toks) + 1 THEN r ELSE Fail(r.pos)
=============================================================================

-------------------------------- MODULE Conc --------------------------------
(***************************************************************************)
(* Concurrent runs of compiled programs (C08).  NVM machines, each with    *)
(* its own VM state, step over SHARED programs, a shared read-only         *)
(* environment and the global memory budget.  One action:                  *)
(*                                                                         *)
(*   StepOf(i)  -- machine i executes one instruction (VM!Step), or its    *)
(*                 prologue / epilogue                                     *)
(*                                                                         *)
(* so a behaviour is an interleaving of the machines at instruction        *)
(* granularity - the granularity at which the real VM is gated by the      *)
(* verif hook when a schedule is replayed.                                 *)
(*                                                                         *)
(*   SharedUntouched  the programs, the environments and the budget are    *)
(*                    never changed by a step (action property)            *)
(*   Isolation        a machine that has finished returned what it returns *)
(*                    when run alone (the reference outcome)               *)
(*                                                                         *)
(* `sched` records which machine moved at each step; it is what the        *)
(* harness replays and is hidden from the state graph by the VIEW.         *)
(***************************************************************************)
EXTENDS Compiler, Json

CONSTANTS NVM,        \* number of machines
          MaxSwitches,  \* bound on the number of context switches of a schedule
          ConcEmit

XsV == Arr("int", <<IntV(1), IntV(2), IntV(3)>>)
(* pool items: programs with constants of several kinds (calls, loops, allocation) *)
Pool == <<
  [t |-> NBin("+", NId("I"), NInt(1)), env |-> [I |-> IntV(2)]],
  [t |-> NBi("all", NId("Xs"), NBin(">", NPtr, NId("I"))), env |-> [Xs |-> XsV, I |-> IntV(0)]],
  [t |-> NLen(NBin("..", NId("I"), NId("J"))), env |-> [I |-> IntV(1), J |-> IntV(3)]],
  [t |-> NCall("Add", <<NId("I"), NInt(2)>>), env |-> [I |-> IntV(5)]],
  [t |-> NIdx(NId("Xs"), NId("I")), env |-> [Xs |-> XsV, I |-> IntV(4)]]
>>
Budget == 1000

VARIABLES vms,     \* machine states
          item,    \* which pool item each machine runs
          progs,   \* the shared programs (one per pool item)
          sched    \* history: the machine that moved at each step
cvars == <<vms, item, progs, sched>>

ProgOf(i) == CompileProgram(Pool[i].t, "typed", "")

Init == /\ item \in [1..NVM -> 1..Len(Pool)]
        /\ vms = [i \in 1..NVM |-> Fresh(Budget)]
        /\ progs = [k \in 1..Len(Pool) |-> ProgOf(k)]
        /\ sched = <<>>

Switches(s) == Cardinality({k \in 1..(Len(s) - 1) : s[k] # s[k + 1]})

StepOf(i) ==
  LET s == vms[i]
      p == progs[item[i]]
      rho == EnvOf(Pool[item[i]].env)
      s2 == IF s.status = "idle" THEN BeginRun(s, Budget, {})
            ELSE IF s.ip >= Len(p.code) THEN Finish(s)
            ELSE Step(s, p, rho, {})
  IN /\ s.status \in {"idle", "run"}
     /\ Switches(Append(sched, i)) <= MaxSwitches
     /\ vms' = [vms EXCEPT ![i] = s2]
     /\ sched' = Append(sched, i)
     /\ UNCHANGED <<item, progs>>

Next == \E i \in 1..NVM : StepOf(i)
Spec == Init /\ [][Next]_cvars

View == <<vms, item, progs>>

Finished(i) == vms[i].status \notin {"idle", "run"}
AllDone == \A i \in 1..NVM : Finished(i)

SameRes(a, b) == a.ok = b.ok /\ (a.ok => a.v = b.v) /\ a.calls = b.calls
(* C08: whatever the interleaving, a finished machine returned the reference outcome *)
Isolation == \A i \in 1..NVM :
               Finished(i) => SameRes(VMOutcome(vms[i]), Outcome(Pool[item[i]].t, EnvOf(Pool[item[i]].env), Budget, {}))
(* no step writes to what the machines share *)
SharedUntouched == [][progs' = progs /\ item' = item]_cvars

Strip(o) == IF o.ok THEN [ok |-> TRUE, v |-> o.v, calls |-> o.calls, need |-> 0]
            ELSE [ok |-> FALSE, c |-> o.c, calls |-> o.calls, need |-> 0]
SchedCase == [items |-> [i \in 1..NVM |-> [src |-> Src(Pool[item[i]].t), env |-> Pool[item[i]].env,
                                           exp |-> Strip(Outcome(Pool[item[i]].t, EnvOf(Pool[item[i]].env), Budget, {}))]],
              sched |-> sched, budget |-> Budget]
EmitSched == (AllDone /\ ConcEmit = "cases") => PrintT(ToJson(SchedCase))
=============================================================================

------------------------------- MODULE Types -------------------------------
(***************************************************************************)
(* Reference typing rules (DESIGN.md appendix G).  Static types are        *)
(* strings: the Go numeric kinds, "string", "bool", "nil", "any",          *)
(* "[]T", "map[string]T", "Obj", "*Obj".  Every rule returns the result    *)
(* type or "REJECT".  "any" is accepted wherever a specific type is        *)
(* required; such an operand is not statically typed and C03's soundness   *)
(* claim does not cover it.                                                *)
(***************************************************************************)
EXTENDS Sem

REJECT == "REJECT"
IsNumT(t)  == t \in NumKinds \/ t = "any"
IsIntT(t)  == t \in IntKinds \/ t = "any"
IsStrT(t)  == t \in {"string", "any"}
IsBoolT(t) == t \in {"bool", "any"}
IsSliceT(t) == Len(t) > 2 /\ SubSeq(t, 1, 2) = "[]"
IsArrT(t)  == IsSliceT(t) \/ t = "any"
ElemT(t)   == IF t = "any" THEN "any" ELSE SubSeq(t, 3, Len(t))
IsMapTy(t) == t \in {"map[string]int", "map[string]any"}
IsMapT(t)  == IsMapTy(t) \/ t = "any"
MapElemT(t) == CASE t = "map[string]int" -> "int" [] OTHER -> "any"
IsStructT(t) == t \in {"Obj", "*Obj"}
Nilable(t) == t \in {"any", "nil", "*Obj"} \/ IsSliceT(t) \/ IsMapTy(t)

(* result kind of mixed arithmetic: the higher-ranked operand's kind *)
(* with a dynamic operand the result is assumed to have the other operand's kind *)
CombinedT(a, b, dv) == IF a = "any" THEN b ELSE IF b = "any" THEN a ELSE Higher(a, b, dv)

TyUn(op, t) ==
  CASE op \in {"not", "!"} -> IF IsBoolT(t) THEN "bool" ELSE REJECT
    [] op \in {"-", "+"}   -> IF IsNumT(t) THEN t ELSE REJECT

TyBin(op, l, r, dv) ==
  CASE op \in {"==", "!="} ->
         IF (IsNumT(l) /\ IsNumT(r)) \/ l = r \/ l \in {"nil", "any"} \/ r \in {"nil", "any"} THEN "bool" ELSE REJECT
    [] op \in {"and", "&&", "or", "||"} -> IF IsBoolT(l) /\ IsBoolT(r) THEN "bool" ELSE REJECT
    [] op \in {"in", "not in"} ->
         IF IsArrT(r) \/ IsMapT(r) \/ (IsStrT(l) /\ IsStructT(r)) THEN "bool" ELSE REJECT
    [] op \in {"<", "<=", ">", ">="} ->
         IF (IsNumT(l) /\ IsNumT(r)) \/ (IsStrT(l) /\ IsStrT(r)) THEN "bool" ELSE REJECT
    [] op = "+" ->
         IF IsNumT(l) /\ IsNumT(r) THEN CombinedT(l, r, dv)
         ELSE IF IsStrT(l) /\ IsStrT(r) THEN "string"
         ELSE REJECT
    [] op \in {"-", "*", "/"} -> IF IsNumT(l) /\ IsNumT(r) THEN CombinedT(l, r, dv) ELSE REJECT
    [] op = "%"  -> IF IsIntT(l) /\ IsIntT(r) THEN CombinedT(l, r, dv) ELSE REJECT
    [] op = "**" -> IF IsNumT(l) /\ IsNumT(r) THEN "float64" ELSE REJECT
    [] op = ".." -> IF IsIntT(l) /\ IsIntT(r) THEN "[]int" ELSE REJECT
    [] op \in {"contains", "startsWith", "endsWith", "matches"} ->
         IF IsStrT(l) /\ IsStrT(r) THEN "bool" ELSE REJECT

TyProp(t, name) ==
  CASE t \in {"Obj", "*Obj"} -> IF name \in DOMAIN ObjFields THEN ObjFields[name] ELSE REJECT
    [] IsMapTy(t) -> MapElemT(t)
    [] t = "any" -> "any"
    [] OTHER -> REJECT

TyIdx(t, i) ==
  CASE IsSliceT(t) -> IF IsIntT(i) THEN ElemT(t) ELSE REJECT
    [] IsMapTy(t)  -> IF IsStrT(i) THEN MapElemT(t) ELSE REJECT
    [] t = "any"   -> IF IsIntT(i) \/ IsStrT(i) THEN "any" ELSE REJECT
    [] OTHER -> REJECT

TySlice(t, hasFrom, from, hasTo, to) ==
  IF ~(IsSliceT(t) \/ t \in {"string", "any"}) THEN REJECT
  ELSE IF (hasFrom /\ ~IsIntT(from)) \/ (hasTo /\ ~IsIntT(to)) THEN REJECT
  ELSE t

(* is a value of static type t acceptable for parameter type p?  argT is the   *)
(* argument tree: a signed integer literal adopts a numeric parameter type     *)
AssignableArg(argT, t, p) ==
  \/ t = p \/ p = "any" \/ t = "any"
  \/ (IsSignedIntLit(argT) /\ p \in NumKinds)
  \/ (t = "nil" /\ Nilable(p))

TyCall(sig, argTs, tys) ==
  IF (~sig.var /\ Len(tys) # Len(sig.ps)) \/ Len(tys) > Len(sig.ps) THEN REJECT
  ELSE IF \A i \in 1..Len(tys) : AssignableArg(argTs[i], tys[i], sig.ps[i]) THEN sig.r ELSE REJECT

TyCond(c, a, b) == IF ~IsBoolT(c) THEN REJECT
                   ELSE IF a = "nil" THEN b ELSE IF b = "nil" THEN a
                   ELSE IF a = b \/ b = "any" THEN a ELSE "any"

TyLen(t) == IF IsArrT(t) \/ IsMapT(t) \/ IsStrT(t) THEN "int" ELSE REJECT

TyBuiltin(name, xt, bodyT) ==
  IF ~IsArrT(xt) THEN REJECT
  ELSE CASE name \in {"all", "none", "any", "one"} -> IF IsBoolT(bodyT) THEN "bool" ELSE REJECT
         [] name = "count"  -> IF IsBoolT(bodyT) THEN "int" ELSE REJECT
         [] name = "filter" -> IF IsBoolT(bodyT) THEN (IF xt = "any" THEN "[]any" ELSE xt) ELSE REJECT
         [] name = "map"    -> "[]" \o bodyT

(* The static type of a tree (ctx: static type of the innermost enclosing     *)
(* builtin's collection, "" outside closures).  Gen only builds trees whose   *)
(* every node is accepted, so REJECT does not occur on generated trees.       *)
RECURSIVE TypeOf(_, _)
TypeOf(t, ctx) ==
  CASE t.k = "nil" -> "nil" [] t.k = "bool" -> "bool" [] t.k = "int" -> "int" [] t.k = "float" -> "float64"
    [] t.k = "str" -> "string" [] t.k = "id" -> MemberType[t.name] [] t.k = "ptr" -> ElemT(ctx)
    [] t.k = "const" -> "any"
    [] t.k = "un"   -> TyUn(t.op, TypeOf(t.x, ctx))
    [] t.k = "bin"  -> TyBin(t.op, TypeOf(t.l, ctx), TypeOf(t.r, ctx), {})
    [] t.k = "prop" -> TyProp(TypeOf(t.x, ctx), t.name)
    [] t.k = "idx"  -> TyIdx(TypeOf(t.x, ctx), TypeOf(t.i, ctx))
    [] t.k = "slice" -> TypeOf(t.x, ctx)
    [] t.k = "meth" -> MethSig[t.name].r
    [] t.k = "call" -> FnSig[t.name].r
    [] t.k = "len"  -> "int"
    [] t.k = "bi"   -> TyBuiltin(t.name, TypeOf(t.x, ctx), TypeOf(t.body, TypeOf(t.x, ctx)))
    [] t.k = "cond" -> TyCond(TypeOf(t.c, ctx), TypeOf(t.a, ctx), TypeOf(t.b, ctx))
    [] t.k = "arr"  -> "[]any"
    [] t.k = "map"  -> "map[string]any"

(* C17: operator overloading.  With `+` mapped to a function fn(pty, pty)     *)
(* every occurrence of `+` whose operands are both statically of type pty is   *)
(* the call fn(l, r), wherever it sits; every other occurrence keeps its       *)
(* meaning.  Overload: `+` -> Add(int, int) int.  OverloadF: the same operator *)
(* mapped, in another environment, to a function of the same name whose        *)
(* parameters are float64 (written AddF here).                                 *)
RECURSIVE OverloadP(_, _, _, _)
OverloadListP(ts, ctx, pty, fn) == [i \in 1..Len(ts) |-> OverloadP(ts[i], ctx, pty, fn)]
OverloadP(t, ctx, pty, fn) ==
  CASE t.k \in {"nil", "bool", "int", "float", "str", "id", "ptr", "none"} -> t
    [] t.k = "un"   -> NUn(t.op, OverloadP(t.x, ctx, pty, fn))
    [] t.k = "bin"  -> IF t.op = "+" /\ TypeOf(t.l, ctx) = pty /\ TypeOf(t.r, ctx) = pty
                       THEN NCall(fn, <<OverloadP(t.l, ctx, pty, fn), OverloadP(t.r, ctx, pty, fn)>>)
                       ELSE NBin(t.op, OverloadP(t.l, ctx, pty, fn), OverloadP(t.r, ctx, pty, fn))
    [] t.k = "prop" -> NProp(OverloadP(t.x, ctx, pty, fn), t.name, t.ns)
    [] t.k = "idx"  -> NIdx(OverloadP(t.x, ctx, pty, fn), OverloadP(t.i, ctx, pty, fn))
    [] t.k = "slice" -> NSlice(OverloadP(t.x, ctx, pty, fn), OverloadP(t.from, ctx, pty, fn), OverloadP(t.to, ctx, pty, fn))
    [] t.k = "meth" -> NMeth(OverloadP(t.x, ctx, pty, fn), t.name, OverloadListP(t.args, ctx, pty, fn), t.ns)
    [] t.k = "call" -> NCall(t.name, OverloadListP(t.args, ctx, pty, fn))
    [] t.k = "len"  -> NLen(OverloadP(t.x, ctx, pty, fn))
    [] t.k = "bi"   -> NBi(t.name, OverloadP(t.x, ctx, pty, fn), OverloadP(t.body, TypeOf(t.x, ctx), pty, fn))
    [] t.k = "cond" -> NCond(OverloadP(t.c, ctx, pty, fn), OverloadP(t.a, ctx, pty, fn), OverloadP(t.b, ctx, pty, fn))
    [] t.k = "arr"  -> NArr(OverloadListP(t.xs, ctx, pty, fn))
    [] t.k = "map"  -> NMap(t.ks, OverloadListP(t.vs, ctx, pty, fn))
(* a table with two candidates, in mapping order: Add(int, int), then AddAny(interface{}, interface{})    *)
(* whose parameters every operand type implements: the first candidate that fits is chosen               *)
RECURSIVE OverloadT(_, _)
OverloadListT(ts, ctx) == [i \in 1..Len(ts) |-> OverloadT(ts[i], ctx)]
OverloadT(t, ctx) ==
  CASE t.k \in {"nil", "bool", "int", "float", "str", "id", "ptr", "none", "const"} -> t
    [] t.k = "un"   -> NUn(t.op, OverloadT(t.x, ctx))
    [] t.k = "bin"  -> \* operand types are those of the rewritten operands: an overloaded operand has its function's result type
                       LET l2 == OverloadT(t.l, ctx)  r2 == OverloadT(t.r, ctx)
                       IN IF t.op = "+"
                          THEN NCall((IF TypeOf(l2, ctx) = "int" /\ TypeOf(r2, ctx) = "int" THEN "Add" ELSE "AddAny"), <<l2, r2>>)
                          ELSE NBin(t.op, l2, r2)
    [] t.k = "prop" -> NProp(OverloadT(t.x, ctx), t.name, t.ns)
    [] t.k = "idx"  -> NIdx(OverloadT(t.x, ctx), OverloadT(t.i, ctx))
    [] t.k = "slice" -> NSlice(OverloadT(t.x, ctx), OverloadT(t.from, ctx), OverloadT(t.to, ctx))
    [] t.k = "meth" -> NMeth(OverloadT(t.x, ctx), t.name, OverloadListT(t.args, ctx), t.ns)
    [] t.k = "call" -> NCall(t.name, OverloadListT(t.args, ctx))
    [] t.k = "len"  -> NLen(OverloadT(t.x, ctx))
    [] t.k = "bi"   -> NBi(t.name, OverloadT(t.x, ctx), OverloadT(t.body, TypeOf(t.x, ctx)))
    [] t.k = "cond" -> NCond(OverloadT(t.c, ctx), OverloadT(t.a, ctx), OverloadT(t.b, ctx))
    [] t.k = "arr"  -> NArr(OverloadListT(t.xs, ctx))
    [] t.k = "map"  -> NMap(t.ks, OverloadListT(t.vs, ctx))
Overload(t, ctx)  == OverloadP(t, ctx, "int", "Add")
OverloadF(t, ctx) == OverloadP(t, ctx, "float64", "AddF")

(* the operand types are all specific: the expression is statically typed   *)
(* (C03's soundness claim covers exactly these trees)                        *)
Typed(t) == t # "any"
RECURSIVE FullyTyped(_, _)
FullyTyped(t, ctx) ==
  /\ TypeOf(t, ctx) \notin {"any", REJECT}
  /\ \A i \in 1..Len(Kids(t)) :
        FullyTyped(Kids(t)[i], (IF t.k = "bi" /\ i = 2 THEN TypeOf(t.x, ctx) ELSE ctx))
(* C03's scope: every operand is statically typed.  A conditional whose branches are typed differently has *)
(* no single static type itself ("any"), yet all its operands are typed: in scope when it is the root.    *)
SoundScope(t) ==
  \/ FullyTyped(t, "")
  \/ /\ t.k = "cond" /\ TypeOf(t, "") = "any"
     /\ FullyTyped(t.c, "") /\ FullyTyped(t.a, "") /\ FullyTyped(t.b, "")
=============================================================================

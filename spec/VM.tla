--------------------------------- MODULE VM ---------------------------------
(***************************************************************************)
(* The stack machine of vm/vm.go as a transition function.                 *)
(*                                                                         *)
(* A machine state is the record                                           *)
(*   [ip, pp, stack, scopes, memory, limit, calls, status, out, errc]      *)
(* the program is [code |-> bytes, consts |-> constant pool] and is shared *)
(* and never written.  One transition per executed instruction:            *)
(*   Step(s, p, rho)   -- decodes the raw bytes exactly as VM.arg and      *)
(*                        VM.constant do (two-byte little-endian operand)  *)
(* BeginRun is the prologue of VM.Run as written, including what it does   *)
(* NOT re-initialise (memory: Dev_MemoryNotResetOnReuse).                  *)
(* A pop on an empty stack is the explicit status "underflow" (in Go: a    *)
(* slice-bounds panic recovered into an error) so that the invariant       *)
(* NoUnderflow can forbid it; every other panic is status "err".           *)
(*                                                                         *)
(* The same Step serves: in-model execution (RunToEnd, checked against the *)
(* reference semantics for every enumerated expression: MC_VM), behaviours *)
(* of several machines (Conc.tla, History.tla), and validation of traces   *)
(* recorded from the real VM through the verif hook (Trace_VM.tla).        *)
(***************************************************************************)
EXTENDS Types

OpNames == <<"OpPush", "OpPop", "OpRot", "OpFetch", "OpFetchNilSafe", "OpFetchMap", "OpTrue", "OpFalse", "OpNil",
             "OpNegate", "OpNot", "OpEqual", "OpEqualInt", "OpEqualString", "OpJump", "OpJumpIfTrue",
             "OpJumpIfFalse", "OpJumpBackward", "OpIn", "OpLess", "OpMore", "OpLessOrEqual", "OpMoreOrEqual",
             "OpAdd", "OpSubtract", "OpMultiply", "OpDivide", "OpModulo", "OpExponent", "OpRange", "OpMatches",
             "OpMatchesConst", "OpContains", "OpStartsWith", "OpEndsWith", "OpIndex", "OpSlice", "OpProperty",
             "OpPropertyNilSafe", "OpCall", "OpCallFast", "OpMethod", "OpMethodNilSafe", "OpArray", "OpMap",
             "OpLen", "OpCast", "OpStore", "OpLoad", "OpInc", "OpBegin", "OpEnd">>
NumOps == Len(OpNames)
OpByte(name) == (CHOOSE i \in 1..NumOps : OpNames[i] = name) - 1
OpName(b) == IF b + 1 \in 1..NumOps THEN OpNames[b + 1] ELSE "unknown"

(* instructions that carry a two-byte operand *)
HasOperand(name) == name \in {"OpPush", "OpFetch", "OpFetchNilSafe", "OpFetchMap", "OpJump", "OpJumpIfTrue",
                              "OpJumpIfFalse", "OpJumpBackward", "OpMatchesConst", "OpProperty", "OpPropertyNilSafe",
                              "OpCall", "OpCallFast", "OpMethod", "OpMethodNilSafe", "OpCast", "OpStore", "OpLoad", "OpInc"}
ConstOperand(name) == name \in {"OpPush", "OpFetch", "OpFetchNilSafe", "OpFetchMap", "OpMatchesConst", "OpProperty",
                                "OpPropertyNilSafe", "OpCall", "OpCallFast", "OpMethod", "OpMethodNilSafe",
                                "OpStore", "OpLoad", "OpInc"}
JumpOp(name) == name \in {"OpJump", "OpJumpIfTrue", "OpJumpIfFalse", "OpJumpBackward"}

CallC(name, size) == [t |-> "call", name |-> name, size |-> size]
ReC(s) == [t |-> "re", s |-> s]

---------------------------------------------------------------------------
Depth(s) == Len(s.stack)
TopV(s)  == s.stack[Len(s.stack)]
Nth(s, k) == s.stack[Len(s.stack) - k]      \* Nth(s,0) = top

Fresh(budget) == [ip |-> 0, pp |-> 0, stack |-> <<>>, scopes |-> <<>>, memory |-> 0, limit |-> budget,
                  calls |-> <<>>, status |-> "idle", out |-> Nil, errc |-> ""]

(* prologue of VM.Run: limit, ip, pp, stack[0:0], scopes[0:0].  With the    *)
(* deviation the allocation counter of the previous run is kept.            *)
BeginRun(s, budget, dv) ==
  [s EXCEPT !.limit = budget, !.ip = 0, !.pp = 0, !.stack = <<>>, !.scopes = <<>>,
            !.memory = IF "Dev_MemoryNotResetOnReuse" \in dv THEN s.memory ELSE 0,
            !.calls = <<>>, !.status = "run", !.out = Nil, !.errc = ""]

Trap(s, c)   == [s EXCEPT !.status = "err", !.errc = c]
Underflow(s) == [s EXCEPT !.status = "underflow", !.errc = "underflow"]
PushV(s, v)  == [s EXCEPT !.stack = Append(@, v)]
Drop(s, k)   == [s EXCEPT !.stack = SubSeq(@, 1, Len(@) - k)]
(* push a result that may be an error value *)
PushR(s, r)  == IF IsErr(r) THEN Trap(s, r.c) ELSE PushV(s, r)

Bin(s, f(_, _)) == IF Depth(s) < 2 THEN Underflow(s)
                   ELSE PushR(Drop(s, 2), f(Nth(s, 1), Nth(s, 0)))
Un(s, f(_))     == IF Depth(s) < 1 THEN Underflow(s) ELSE PushR(Drop(s, 1), f(Nth(s, 0)))

CurScope(s) == s.scopes[Len(s.scopes)]
ScopeGet(sc, k) == IF k \in DOMAIN sc THEN sc[k] ELSE Nil
ScopeSet(s, k, v) == LET sc == CurScope(s)
                         sc2 == [x \in (DOMAIN sc) \cup {k} |-> IF x = k THEN v ELSE sc[x]]
                     IN [s EXCEPT !.scopes = [@ EXCEPT ![Len(@)] = sc2]]

(* environment lookup of vm.fetch(env, name, nilsafe) *)
EnvFetch(rho, name, nilsafe) == IF name \in DOMAIN rho THEN rho[name]
                                ELSE IF nilsafe THEN Nil ELSE Err("nil")

(* reflect.Call on an environment function: dynamic argument check, log, apply *)
VMCall(s, name, args, rho) ==
  IF name \notin DOMAIN FnSig THEN Trap(s, "nil")
  ELSE LET sig == FnSig[name]
           bad == (~sig.var /\ Len(args) # Len(sig.ps))
                  \/ \E i \in 1..Len(args) : ~DynAssignable(args[i], sig.ps[IF sig.var THEN 1 ELSE i])
       IN IF bad THEN Trap(s, "type")
          ELSE IF name = "NilFn" THEN Trap(s, "nil")
          ELSE PushR([s EXCEPT !.calls = Append(@, [fn |-> name, args |-> args])], FnApply(name, args, rho))

VMMethod(s, recv, name, args, nilsafe) ==
  IF recv.t = "nil" THEN (IF nilsafe THEN PushV(s, Nil) ELSE Trap(s, "nil"))
  ELSE IF recv.t = "ptr" /\ recv.isnil THEN Trap(s, "nil")
  ELSE IF recv.t \notin {"obj", "ptr"} \/ name \notin DOMAIN MethSig THEN Trap(s, "type")
  ELSE IF recv.t = "obj" /\ name = "Bump" THEN Trap(s, "type")
  ELSE LET sig == MethSig[name]
           bad == Len(args) # Len(sig.ps) \/ \E i \in 1..Len(args) : ~DynAssignable(args[i], sig.ps[i])
       IN IF bad THEN Trap(s, "type")
          ELSE PushR([s EXCEPT !.calls = Append(@, [fn |-> name, args |-> args])], MethApply(name, recv, args))

TopArgs(s, k) == SubSeq(s.stack, Len(s.stack) - k + 1, Len(s.stack))

(* One instruction.  s.status = "run" and s.ip < Len(p.code).              *)
Step(s, p, rho, dv) ==
  LET b  == p.code[s.ip + 1]
      nm == OpName(b)
      arg == p.code[s.ip + 2] + 256 * p.code[s.ip + 3]
      s1 == [s EXCEPT !.pp = s.ip, !.ip = s.ip + 1]
      s3 == [s EXCEPT !.pp = s.ip, !.ip = s.ip + 3]
      k  == IF arg + 1 \in 1..Len(p.consts) THEN p.consts[arg + 1] ELSE Err("badconst")
  IN
  IF HasOperand(nm) /\ s.ip + 3 > Len(p.code) THEN Trap(s1, "truncated")
  ELSE IF ConstOperand(nm) /\ IsErr(k) THEN Trap(s3, "badconst")
  ELSE
  CASE nm = "OpPush" -> PushV(s3, k)
    [] nm = "OpPop"  -> IF Depth(s) < 1 THEN Underflow(s1) ELSE Drop(s1, 1)
    [] nm = "OpRot"  -> IF Depth(s) < 2 THEN Underflow(s1)
                        ELSE PushV(PushV(Drop(s1, 2), Nth(s, 0)), Nth(s, 1))
    [] nm = "OpFetch" -> PushR(s3, EnvFetch(rho, k.s, FALSE))
    [] nm = "OpFetchNilSafe" -> PushR(s3, EnvFetch(rho, k.s, TRUE))
    [] nm = "OpFetchMap" -> PushV(s3, IF k.s \in DOMAIN rho THEN rho[k.s] ELSE Nil)
    [] nm = "OpTrue"  -> PushV(s1, Bool(TRUE))
    [] nm = "OpFalse" -> PushV(s1, Bool(FALSE))
    [] nm = "OpNil"   -> PushV(s1, Nil)
    [] nm = "OpNegate" -> Un(s1, Negate)
    [] nm = "OpNot"   -> Un(s1, LAMBDA a : IF IsBool(a) THEN Bool(~a.b) ELSE Err("type"))
    [] nm = "OpEqual" -> Bin(s1, LAMBDA a, c : Equal(a, c, dv))
    [] nm \in {"OpEqualInt", "OpEqualString"} -> Bin(s1, LAMBDA a, c : Equal(a, c, dv))
    [] nm = "OpJump" -> [s3 EXCEPT !.ip = @ + arg]
    [] nm = "OpJumpIfTrue" ->
         IF Depth(s) < 1 THEN Underflow(s3) ELSE IF ~IsBool(TopV(s)) THEN Trap(s3, "type")
         ELSE IF TopV(s).b THEN [s3 EXCEPT !.ip = @ + arg] ELSE s3
    [] nm = "OpJumpIfFalse" ->
         IF Depth(s) < 1 THEN Underflow(s3) ELSE IF ~IsBool(TopV(s)) THEN Trap(s3, "type")
         ELSE IF ~TopV(s).b THEN [s3 EXCEPT !.ip = @ + arg] ELSE s3
    [] nm = "OpJumpBackward" -> [s3 EXCEPT !.ip = @ - arg]
    [] nm = "OpIn" -> Bin(s1, LAMBDA a, c : In(a, c, dv))
    [] nm = "OpLess" -> Bin(s1, LAMBDA a, c : Compare("<", a, c, dv))
    [] nm = "OpMore" -> Bin(s1, LAMBDA a, c : Compare(">", a, c, dv))
    [] nm = "OpLessOrEqual" -> Bin(s1, LAMBDA a, c : Compare("<=", a, c, dv))
    [] nm = "OpMoreOrEqual" -> Bin(s1, LAMBDA a, c : Compare(">=", a, c, dv))
    [] nm = "OpAdd" -> Bin(s1, LAMBDA a, c : Arith("+", a, c, dv))
    [] nm = "OpSubtract" -> Bin(s1, LAMBDA a, c : Arith("-", a, c, dv))
    [] nm = "OpMultiply" -> Bin(s1, LAMBDA a, c : Arith("*", a, c, dv))
    [] nm = "OpDivide" -> Bin(s1, LAMBDA a, c : Arith("/", a, c, dv))
    [] nm = "OpModulo" -> Bin(s1, LAMBDA a, c : Arith("%", a, c, dv))
    [] nm = "OpExponent" -> Bin(s1, Pow)
    [] nm = "OpRange" ->
         IF Depth(s) < 2 THEN Underflow(s1)
         ELSE LET a == Nth(s, 1)  c == Nth(s, 0)
              IN IF ~(IsNum(a) /\ IsNum(c)) THEN Trap(s1, "type")
                 ELSE LET lo == ToIntIdx(a)  hi == ToIntIdx(c)
                          size == IF "Dev_RangeSizeSigned" \in dv THEN hi - lo + 1 ELSE RangeSize(lo, hi)
                      IN IF s.memory + size >= s.limit THEN Trap(Drop(s1, 2), "budget")
                         ELSE IF RangeSize(lo, hi) > 64 THEN Trap(Drop(s1, 2), "outside")
                         ELSE [PushV(Drop(s1, 2), RangeVal(lo, hi)) EXCEPT !.memory = @ + size]
    [] nm = "OpMatches" -> Bin(s1, LAMBDA a, c : StrOp("matches", a, c))
    [] nm = "OpMatchesConst" -> Un(s3, LAMBDA a : StrOp("matches", a, Str(k.s)))
    [] nm = "OpContains" -> Bin(s1, LAMBDA a, c : StrOp("contains", a, c))
    [] nm = "OpStartsWith" -> Bin(s1, LAMBDA a, c : StrOp("startsWith", a, c))
    [] nm = "OpEndsWith" -> Bin(s1, LAMBDA a, c : StrOp("endsWith", a, c))
    [] nm = "OpIndex" -> Bin(s1, LAMBDA a, c : Fetch(a, c, FALSE))
    [] nm = "OpSlice" -> IF Depth(s) < 3 THEN Underflow(s1)
                         ELSE PushR(Drop(s1, 3), Slice(Nth(s, 2), Nth(s, 0), Nth(s, 1)))   \* pops from, to, node
    [] nm = "OpProperty" -> Un(s3, LAMBDA a : Fetch(a, k, FALSE))
    [] nm = "OpPropertyNilSafe" -> Un(s3, LAMBDA a : Fetch(a, k, TRUE))
    [] nm \in {"OpCall", "OpCallFast"} ->
         IF k.t # "call" THEN Trap(s3, "badconst")
         ELSE IF Depth(s) < k.size THEN Underflow(s3)
         ELSE VMCall(Drop(s3, k.size), k.name, TopArgs(s, k.size), rho)
    [] nm \in {"OpMethod", "OpMethodNilSafe"} ->
         IF k.t # "call" THEN Trap(s3, "badconst")
         ELSE IF Depth(s) < k.size + 1 THEN Underflow(s3)
         ELSE VMMethod(Drop(s3, k.size + 1), Nth(s, k.size), k.name, TopArgs(s, k.size), nm = "OpMethodNilSafe")
    [] nm = "OpArray" ->
         IF Depth(s) < 1 THEN Underflow(s1)
         ELSE LET sz == TopV(s)
              IN IF ~(IsInt(sz) /\ sz.k = "int") THEN Trap(s1, "type")
                 ELSE IF Depth(s) < 1 + sz.n THEN Underflow(s1)
                 ELSE LET s2 == [PushV(Drop(s1, 1 + sz.n), Arr("any", SubSeq(s.stack, Len(s.stack) - sz.n, Len(s.stack) - 1)))
                                   EXCEPT !.memory = @ + sz.n]
                      IN IF s2.memory >= s2.limit THEN Trap(s2, "budget") ELSE s2
    [] nm = "OpMap" ->
         IF Depth(s) < 1 THEN Underflow(s1)
         ELSE LET sz == TopV(s)
              IN IF ~(IsInt(sz) /\ sz.k = "int") THEN Trap(s1, "type")
                 ELSE IF Depth(s) < 1 + 2 * sz.n THEN Underflow(s1)
                 ELSE LET base == Len(s.stack) - 1 - 2 * sz.n
                          keys == [i \in 1..sz.n |-> s.stack[base + 2 * i - 1]]
                          vals == [i \in 1..sz.n |-> s.stack[base + 2 * i]]
                      IN IF \E i \in 1..sz.n : ~IsStr(keys[i]) THEN Trap(s1, "type")
                         ELSE LET s2 == [PushV(Drop(s1, 1 + 2 * sz.n), MapV("any", [i \in 1..sz.n |-> keys[i].s], vals))
                                           EXCEPT !.memory = @ + sz.n]
                              IN IF s2.memory >= s2.limit THEN Trap(s2, "budget") ELSE s2
    [] nm = "OpLen" -> IF Depth(s) < 1 THEN Underflow(s1) ELSE PushR(s1, Length(TopV(s)))
    [] nm = "OpCast" -> IF arg \in {0, 1}
                        THEN Un(s3, LAMBDA a : Cast(a, IF arg = 0 THEN "int64" ELSE "float64"))
                        ELSE s3
    [] nm = "OpStore" -> IF Len(s.scopes) = 0 THEN Trap(s3, "noscope")
                         ELSE IF Depth(s) < 1 THEN Underflow(s3)
                         ELSE ScopeSet(Drop(s3, 1), k.s, TopV(s))
    [] nm = "OpLoad" -> PushV(s3, IF Len(s.scopes) = 0 THEN Nil ELSE ScopeGet(CurScope(s), k.s))
    [] nm = "OpInc" -> IF Len(s.scopes) = 0 THEN Trap(s3, "noscope")
                       ELSE LET v == ScopeGet(CurScope(s), k.s)
                            IN IF ~(IsInt(v) /\ v.k = "int") THEN Trap(s3, "type")
                               ELSE ScopeSet(s3, k.s, IntV(v.n + 1))
    [] nm = "OpBegin" -> [s1 EXCEPT !.scopes = Append(@, <<>>)]
    [] nm = "OpEnd" -> IF Len(s.scopes) = 0 THEN Trap(s1, "noscope")
                       ELSE [s1 EXCEPT !.scopes = SubSeq(@, 1, Len(@) - 1)]
    [] OTHER -> Trap(s1, "unknown")

(* epilogue of VM.Run: the loop ends when ip reaches the end of the code *)
Finish(s) == IF Len(s.stack) > 0
             THEN [s EXCEPT !.status = "done", !.out = TopV(s), !.stack = SubSeq(@, 1, Len(@) - 1)]
             ELSE [s EXCEPT !.status = "done", !.out = Nil]

RECURSIVE RunFrom(_, _, _, _, _)
RunFrom(s, p, rho, dv, fuel) ==
  IF s.status # "run" THEN s
  ELSE IF fuel = 0 THEN [s EXCEPT !.status = "fuel"]
  ELSE IF s.ip >= Len(p.code) THEN Finish(s)
  ELSE RunFrom(Step(s, p, rho, dv), p, rho, dv, fuel - 1)

RunToEnd(p, rho, budget, dv) == RunFrom(BeginRun(Fresh(budget), budget, dv), p, rho, dv, 5000)

(* what one run shows to its caller, in the shape of Sem!Outcome *)
VMOutcome(s) ==
  IF s.status = "done" THEN [ok |-> TRUE, v |-> s.out, calls |-> s.calls, need |-> s.memory]
  ELSE [ok |-> FALSE, c |-> s.errc, calls |-> s.calls, need |-> s.memory]

---------------------------------------------------------------------------
(* State invariants (C05, C06): evaluated on every state of every run      *)
NoUnderflow(s)     == s.status # "underflow"
CleanExit(s)       == s.status = "done" => (Len(s.stack) = 0 /\ Len(s.scopes) = 0)
MemoryNonNegative(s) == s.memory >= 0
BudgetRespected(s) == s.status \in {"run", "done"} => s.memory < s.limit \/ s.memory = 0

(* C05 (a): the byte string decodes into known instructions with complete   *)
(* operands, constant indices are in range and of the expected kind, every  *)
(* jump lands on an instruction boundary or exactly at the end.             *)
RECURSIVE Boundaries(_, _)
Boundaries(code, i) ==   \* set of 0-based instruction start offsets from offset i
  IF i >= Len(code) THEN {}
  ELSE {i} \cup Boundaries(code, i + (IF HasOperand(OpName(code[i + 1])) THEN 3 ELSE 1))

ConstKindOK(nm, k) ==
  CASE nm \in {"OpCall", "OpCallFast", "OpMethod", "OpMethodNilSafe"} -> k.t = "call"
    [] nm = "OpMatchesConst" -> k.t = "re"
    [] nm \in {"OpFetch", "OpFetchNilSafe", "OpFetchMap", "OpProperty", "OpPropertyNilSafe", "OpStore", "OpLoad", "OpInc"} -> k.t = "str"
    [] OTHER -> TRUE

WellFormed(p) ==
  LET bs == Boundaries(p.code, 0)
  IN \A i \in bs :
       LET nm == OpName(p.code[i + 1])
           arg == p.code[i + 2] + 256 * p.code[i + 3]
       IN /\ nm # "unknown"
          /\ HasOperand(nm) => i + 3 <= Len(p.code)
          /\ (HasOperand(nm) /\ i + 3 <= Len(p.code)) =>
               /\ ConstOperand(nm) => (arg < Len(p.consts) /\ ConstKindOK(nm, p.consts[arg + 1]))
               /\ nm \in {"OpJump", "OpJumpIfTrue", "OpJumpIfFalse"} => (i + 3 + arg \in bs \/ i + 3 + arg = Len(p.code))
               /\ nm = "OpJumpBackward" => (i + 3 - arg \in bs)
               /\ nm = "OpCast" => arg \in {0, 1}
=============================================================================

------------------------------- MODULE Prim -------------------------------
(***************************************************************************)
(* Abstract value universe of the expr language and the primitive          *)
(* operations on it.  Both the reference semantics (Sem.tla, big step over *)
(* syntax trees) and the machine model (VM.tla, small step over bytecode)  *)
(* are built from these operators, the way vm/vm.go is built from          *)
(* vm/runtime.go and vm/helpers.go.                                        *)
(*                                                                         *)
(* Values are tagged records with tag-specific field names, so that TLC    *)
(* never compares a string with an integer:                                *)
(*   [t:"nil"] [t:"bool",b] [t:"int",k,n] [t:"flt",k,m,e] (= m * 2^-e)     *)
(*   [t:"str",s] [t:"arr",et,a] [t:"map",vt,mk,mv] [t:"obj",ty,f]          *)
(*   [t:"ptr",ty,isnil,to] [t:"fn",name]  [t:"err",c]                      *)
(* A failed evaluation is the value [t:"err", c:<class>]; class "outside"  *)
(* means "the exact result is not representable in this universe" (a       *)
(* non-dyadic quotient, a magnitude beyond TLC's integers): such cases are *)
(* dropped by the generators and never compared.                           *)
(*                                                                         *)
(* dv is the set of named deviations (DESIGN.md appendix C) switched on:   *)
(* with dv = {} the operators are the language definition, with a          *)
(* deviation in dv they do what the pinned implementation does.            *)
(***************************************************************************)
EXTENDS Integers, Sequences, FiniteSets, TLC

Nil        == [t |-> "nil"]
Bool(b)    == [t |-> "bool", b |-> b]
IntK(k, n) == [t |-> "int", k |-> k, n |-> n]
IntV(n)     == IntK("int", n)
Str(s)     == [t |-> "str", s |-> s]
Arr(et, a) == [t |-> "arr", et |-> et, a |-> a]
MapV(vt, mk, mv) == [t |-> "map", vt |-> vt, mk |-> mk, mv |-> mv]
Obj(ty, f) == [t |-> "obj", ty |-> ty, f |-> f]
PtrNil(ty) == [t |-> "ptr", ty |-> ty, isnil |-> TRUE]
PtrTo(ty, o) == [t |-> "ptr", ty |-> ty, isnil |-> FALSE, to |-> o]
Fn(name)   == [t |-> "fn", name |-> name]
Err(c)     == [t |-> "err", c |-> c]
Outside    == Err("outside")

IsErr(v)  == v.t = "err"
IsNum(v)  == v.t \in {"int", "flt"}
IsInt(v)  == v.t = "int"
IsFlt(v)  == v.t = "flt"
IsStr(v)  == v.t = "str"
IsBool(v) == v.t = "bool"
IsArr(v)  == v.t = "arr"

(* first error of a sequence of values, or Nil-like "none" *)
FirstErr(vs) == LET idx == {i \in 1..Len(vs) : IsErr(vs[i])}
                IN IF idx = {} THEN Nil ELSE vs[CHOOSE i \in idx : \A j \in idx : i <= j]

---------------------------------------------------------------------------
(* Numeric kinds *)

IntKinds   == {"int", "int8", "int16", "int32", "int64",
               "uint", "uint8", "uint16", "uint32", "uint64"}
FloatKinds == {"float32", "float64"}
NumKinds   == IntKinds \cup FloatKinds
KindSeq    == <<"uint", "uint8", "uint16", "uint32", "uint64",
                "int", "int8", "int16", "int32", "int64", "float32", "float64">>

Signed(k) == k \in {"int", "int8", "int16", "int32", "int64"}
Bits(k) == CASE k \in {"int8", "uint8"} -> 8
             [] k \in {"int16", "uint16"} -> 16
             [] k \in {"int32", "uint32"} -> 32
             [] OTHER -> 64

(* The promotion rank of property C14: unsigned kinds by width, then signed *)
(* kinds by width, then float32, float64.  uint/uint64 and int/int64 have   *)
(* the same width; the tie is resolved towards the explicitly sized kind.   *)
RankRef(k) == CASE k = "uint8" -> 1 [] k = "uint16" -> 2 [] k = "uint32" -> 3
                [] k = "uint" -> 4 [] k = "uint64" -> 5
                [] k = "int8" -> 6 [] k = "int16" -> 7 [] k = "int32" -> 8
                [] k = "int" -> 9 [] k = "int64" -> 10
                [] k = "float32" -> 11 [] k = "float64" -> 12
(* What checker/types.go typeWeight and vm/generate/main.go do: position in *)
(* the list uint,uint8,...  (Dev_RankIntBelowInt8).                         *)
RankImpl(k) == CHOOSE i \in 1..12 : KindSeq[i] = k
Rank(k, dv) == IF "Dev_RankIntBelowInt8" \in dv THEN RankImpl(k) ELSE RankRef(k)
Higher(a, b, dv) == IF Rank(a, dv) >= Rank(b, dv) THEN a ELSE b

Pow2(e) == CASE e = 0 -> 1 [] e = 1 -> 2 [] e = 2 -> 4 [] e = 3 -> 8 [] e = 4 -> 16
             [] e = 5 -> 32 [] e = 6 -> 64 [] e = 7 -> 128 [] e = 8 -> 256
             [] e = 9 -> 512 [] e = 10 -> 1024 [] e = 11 -> 2048 [] e = 12 -> 4096
             [] e = 13 -> 8192 [] e = 14 -> 16384 [] e = 15 -> 32768 [] e = 16 -> 65536
             [] e = 20 -> 1048576 [] e = 24 -> 16777216 [] e = 30 -> 1073741824

Big == 32768 * 16384      \* 2^29: magnitudes at or above this leave the universe

(* n wrapped into the range of integer kind k, as a Go conversion does *)
Wrap(n, k) ==
  IF n >= Big \/ n <= -Big THEN Outside
  ELSE CASE Bits(k) = 8  -> IntK(k, LET r == n % 256 IN IF Signed(k) /\ r >= 128 THEN r - 256 ELSE r)
         [] Bits(k) = 16 -> IntK(k, LET r == n % 65536 IN IF Signed(k) /\ r >= 32768 THEN r - 65536 ELSE r)
         [] OTHER -> IF Signed(k) \/ n >= 0 THEN IntK(k, n) ELSE Outside

RECURSIVE NormF(_, _, _)
NormF(k, m, e) == IF e > 0 /\ m % 2 = 0 THEN NormF(k, m \div 2, e - 1)
                  ELSE [t |-> "flt", k |-> k, m |-> m, e |-> e]
Flt(k, m, e) == IF e > 12 \/ m >= Big \/ m <= -Big THEN Outside ELSE NormF(k, m, e)
F64(m, e) == Flt("float64", m, e)

Trunc(m, p) == IF m >= 0 THEN m \div p ELSE -((-m) \div p)

(* Conv(v, k): Go conversion of a number to kind k *)
Conv(v, k) ==
  IF ~IsNum(v) THEN Err("type")
  ELSE IF k \in IntKinds
       THEN IF IsInt(v) THEN Wrap(v.n, k) ELSE Wrap(Trunc(v.m, Pow2(v.e)), k)
       ELSE IF IsInt(v)
            THEN IF k = "float32" /\ (v.n >= Pow2(24) \/ v.n <= -Pow2(24)) THEN Outside
                 ELSE Flt(k, v.n, 0)
            ELSE Flt(k, v.m, v.e)

KindOf(v) == v.k
Mant(v) == IF IsInt(v) THEN v.n ELSE v.m
Expo(v) == IF IsInt(v) THEN 0 ELSE v.e
Max2(a, b) == IF a >= b THEN a ELSE b
Min2(a, b) == IF a <= b THEN a ELSE b

(* compare two numbers of the same kind exactly: -1, 0, 1 *)
CmpNum(a, b) == LET e == Max2(Expo(a), Expo(b))
                    x == Mant(a) * Pow2(e - Expo(a))
                    y == Mant(b) * Pow2(e - Expo(b))
                IN IF x < y THEN -1 ELSE IF x = y THEN 0 ELSE 1

RECURSIVE OddPart(_), TwoExp(_)
OddPart(m) == IF m % 2 = 0 /\ m # 0 THEN OddPart(m \div 2) ELSE m
TwoExp(m)  == IF m % 2 = 0 /\ m # 0 THEN 1 + TwoExp(m \div 2) ELSE 0
Abs(x) == IF x < 0 THEN -x ELSE x
Sgn(x) == IF x < 0 THEN -1 ELSE 1

(* arithmetic on two numbers already converted to the same kind k *)
SameKindArith(op, k, a, b) ==
  IF k \in IntKinds
  THEN CASE op = "+" -> Wrap(a.n + b.n, k)
         [] op = "-" -> Wrap(a.n - b.n, k)
         [] op = "*" -> IF (Abs(a.n) < 32768 /\ Abs(b.n) < 32768) \/ Abs(a.n) <= 1 \/ Abs(b.n) <= 1
                        THEN Wrap(a.n * b.n, k) ELSE Outside
         [] op = "/" -> IF b.n = 0 THEN Err("divzero") ELSE Wrap(Trunc(Abs(a.n), Abs(b.n)) * Sgn(a.n) * Sgn(b.n), k)
         [] op = "%" -> IF b.n = 0 THEN Err("divzero") ELSE Wrap(Sgn(a.n) * (Abs(a.n) % Abs(b.n)), k)
  ELSE LET e == Max2(a.e, b.e)
           x == a.m * Pow2(e - a.e)
           y == b.m * Pow2(e - b.e)
       IN CASE op = "+" -> Flt(k, x + y, e)
            [] op = "-" -> Flt(k, x - y, e)
            [] op = "*" -> IF (Abs(a.m) < 32768 /\ Abs(b.m) < 32768) \/ Abs(a.m) <= 1 \/ Abs(b.m) <= 1
                           THEN Flt(k, a.m * b.m, a.e + b.e) ELSE Outside
            [] op = "/" -> IF b.m = 0 THEN Outside
                           ELSE LET q == Abs(OddPart(b.m))  j == TwoExp(b.m)
                                IN IF a.m % q # 0 \/ b.e > 12 \/ Abs(a.m) >= 32768 THEN Outside
                                   ELSE Flt(k, Sgn(b.m) * (a.m \div q) * Pow2(b.e), a.e + j)
            [] op = "%" -> Err("type")

(* Arith: the promotion rule -- convert the lower-ranked operand to the     *)
(* higher-ranked operand's kind, then apply the Go operator of that kind.   *)
Arith(op, a, b, dv) ==
  IF IsNum(a) /\ IsNum(b)
  THEN IF op = "%" /\ (IsFlt(a) \/ IsFlt(b)) THEN Err("type")
       ELSE LET k == Higher(a.k, b.k, dv)
                x == Conv(a, k)
                y == Conv(b, k)
            IN IF IsErr(x) THEN x ELSE IF IsErr(y) THEN y ELSE SameKindArith(op, k, x, y)
  ELSE IF op = "+" /\ IsStr(a) /\ IsStr(b) THEN Str(a.s \o b.s)
  ELSE Err("type")

RECURSIVE IPow(_, _)
IPow(b, n) == IF n = 0 THEN 1 ELSE
              LET r == IPow(b, n - 1)
              IN IF (r = -1 /\ ~(b = -1)) \/ (Abs(b) > 1 /\ Abs(r) >= Big \div Abs(b)) THEN -1 ELSE r * b
(* a ** b is float64 math.Pow; only integral base with small non-negative   *)
(* integral exponent is inside the universe                                 *)
Pow(a, b) ==
  IF ~(IsNum(a) /\ IsNum(b)) THEN Err("type")
  ELSE LET x == Conv(a, "float64")  y == Conv(b, "float64")
       IN IF IsErr(x) \/ IsErr(y) THEN Outside
          ELSE IF x.e = 0 /\ y.e = 0 /\ y.m >= 0 /\ y.m <= 8 /\ Abs(x.m) <= 1024
               THEN LET r == IPow(x.m, y.m) IN IF r = -1 /\ ~(x.m = -1) THEN Outside ELSE F64(r, 0)
               ELSE Outside

Negate(a) == IF ~IsNum(a) THEN Err("type")
             ELSE IF IsInt(a) THEN Wrap(-a.n, a.k) ELSE Flt(a.k, -a.m, a.e)

---------------------------------------------------------------------------
(* Strings: TLC has no order on strings; bytes are looked up in a table.   *)
(* Only printable ASCII occurs in model strings (non-ASCII text is handled *)
(* symbolically by the front-end modules).                                 *)

Printable == " !\"#$%&'()*+,-./0123456789:;<=>?@ABCDEFGHIJKLMNOPQRSTUVWXYZ[\\]^_`abcdefghijklmnopqrstuvwxyz{|}~"
Ch(s, i) == SubSeq(s, i, i)
(* Model strings are BYTE strings.  The characters "{" and "|" stand for the two bytes 0xC3 0xA9 of the rune *)
(* U+00E9 (the harness maps them both ways), so that a member value can hold a multi-byte rune: len counts   *)
(* its two bytes, a slice may cut it in two, comparison and indexing see the byte values.                   *)
Ord(c) == IF c = "{" THEN 195 ELSE IF c = "|" THEN 169
          ELSE 31 + (CHOOSE i \in 1..Len(Printable) : Ch(Printable, i) = c)

RECURSIVE StrCmpFrom(_, _, _)
StrCmpFrom(a, b, i) ==
  IF i > Len(a) /\ i > Len(b) THEN 0
  ELSE IF i > Len(a) THEN -1 ELSE IF i > Len(b) THEN 1
  ELSE IF Ch(a, i) = Ch(b, i) THEN StrCmpFrom(a, b, i + 1)
  ELSE IF Ord(Ch(a, i)) < Ord(Ch(b, i)) THEN -1 ELSE 1
StrCmp(a, b) == StrCmpFrom(a, b, 1)

HasPrefix(s, p) == Len(p) <= Len(s) /\ SubSeq(s, 1, Len(p)) = p
HasSuffix(s, p) == Len(p) <= Len(s) /\ SubSeq(s, Len(s) - Len(p) + 1, Len(s)) = p
Contains(s, p)  == \E i \in 1..(Len(s) - Len(p) + 1) : SubSeq(s, i, i + Len(p) - 1) = p

(* Patterns: the literal forms lit, ^lit, lit$, ^lit$, and the invalid "(". *)
(* A pattern computed at run time whose literal part contains one of the    *)
(* metacharacters of the alphabet is outside the modelled pattern language.  *)
(* (the model characters of the two-byte rune are not patterns either: half a rune is not valid UTF-8 for a regexp) *)
HasMeta(lit) == \E i \in 1..Len(lit) : Ch(lit, i) \in {"(", "^", "$", "{", "|"}
Matches(s, p) ==
  IF p = "(" THEN Err("pattern")
  ELSE LET anchL == Len(p) > 0 /\ Ch(p, 1) = "^"
           anchR == Len(p) > 0 /\ Ch(p, Len(p)) = "$"
           lit   == SubSeq(p, (IF anchL THEN 2 ELSE 1), (IF anchR THEN Len(p) - 1 ELSE Len(p)))
       IN IF HasMeta(lit) THEN Outside ELSE
          Bool(CASE anchL /\ anchR -> s = lit
                 [] anchL -> HasPrefix(s, lit)
                 [] anchR -> HasSuffix(s, lit)
                 [] OTHER -> Contains(s, lit))

StrOp(op, a, b) ==
  IF ~(IsStr(a) /\ IsStr(b)) THEN Err("type")
  ELSE CASE op = "contains"   -> Bool(Contains(a.s, b.s))
         [] op = "startsWith" -> Bool(HasPrefix(a.s, b.s))
         [] op = "endsWith"   -> Bool(HasSuffix(a.s, b.s))
         [] op = "matches"    -> Matches(a.s, b.s)

---------------------------------------------------------------------------
(* Comparison and equality *)

Compare(op, a, b, dv) ==
  IF IsNum(a) /\ IsNum(b)
  THEN LET k == Higher(a.k, b.k, dv)
           x == Conv(a, k)
           y == Conv(b, k)
       IN IF IsErr(x) THEN x ELSE IF IsErr(y) THEN y
          ELSE LET c == CmpNum(x, y)
               IN Bool(CASE op = "<" -> c < 0 [] op = "<=" -> c <= 0
                         [] op = ">" -> c > 0 [] op = ">=" -> c >= 0)
  ELSE IF IsStr(a) /\ IsStr(b)
  THEN LET c == StrCmp(a.s, b.s)
       IN Bool(CASE op = "<" -> c < 0 [] op = "<=" -> c <= 0
                 [] op = ">" -> c > 0 [] op = ">=" -> c >= 0)
  ELSE Err("type")

NilEts == {"nil[]int", "nil[]any", "nil[]string", "nil[]float64", "nil[]Obj", "nil[]*Obj", "nil[]bool"}
NilVts == {"nil:int", "nil:any"}
IsNilLike(v) == v.t = "nil" \/ (v.t = "ptr" /\ v.isnil) \/ (v.t = "fn" /\ v.name = "")
                \/ (v.t = "arr" /\ v.et \in NilEts) \/ (v.t = "map" /\ v.vt \in NilVts)

(* Equality by value.  Numbers after promotion; sequences element by       *)
(* element.  With Dev_DeepEqualSequences it is the implementation's        *)
(* reflect.DeepEqual: the Go container types and the elements' Go kinds    *)
(* must coincide as well.  Never fails.                                    *)
RECURSIVE EqualB(_, _, _)
EqualB(a, b, dv) ==
  IF IsNum(a) /\ IsNum(b)
  THEN LET k == Higher(a.k, b.k, dv)
           x == Conv(a, k)
           y == Conv(b, k)
       IN IF IsErr(x) \/ IsErr(y) THEN FALSE ELSE CmpNum(x, y) = 0
  ELSE IF IsNilLike(a) /\ IsNilLike(b) THEN TRUE
  ELSE IF a.t # b.t THEN FALSE
  ELSE CASE a.t = "str"  -> a.s = b.s
         [] a.t = "bool" -> a.b = b.b
         [] a.t = "arr"  -> /\ Len(a.a) = Len(b.a)
                            /\ ("Dev_DeepEqualSequences" \in dv => a.et = b.et)
                            /\ \A i \in 1..Len(a.a) :
                                 /\ EqualB(a.a[i], b.a[i], dv)
                                 /\ ("Dev_DeepEqualSequences" \in dv /\ IsNum(a.a[i]) /\ IsNum(b.a[i])
                                        => a.a[i].k = b.a[i].k)
         [] a.t = "map"  -> /\ a.mk = b.mk
                            /\ \A i \in 1..Len(a.mv) : EqualB(a.mv[i], b.mv[i], dv)
         [] a.t = "obj"  -> a = b
         [] a.t = "ptr"  -> a = b
         [] OTHER -> FALSE
Equal(a, b, dv) == Bool(EqualB(a, b, dv))

---------------------------------------------------------------------------
(* Collections *)

ToIntIdx(i) == IF IsInt(i) THEN i.n ELSE IF IsFlt(i) THEN Trunc(i.m, Pow2(i.e)) ELSE -999999

ZeroOf(vt) == CASE vt \in {"int", "nil:int"} -> IntV(0) [] vt = "string" -> Str("") [] vt = "bool" -> Bool(FALSE)
                [] vt = "float64" -> F64(0, 0) [] OTHER -> Nil

MapIdx(m, key) == {i \in 1..Len(m.mk) : m.mk[i] = key}
MapGet(m, key) == LET s == MapIdx(m, key)
                  IN IF s = {} THEN ZeroOf(m.vt) ELSE m.mv[CHOOSE i \in s : TRUE]

(* runtime.fetch(from, i, nilsafe): index an array or string, look up a    *)
(* map key, read a struct field (through a pointer too).                   *)
Fetch(from, i, nilsafe) ==
  LET miss == IF nilsafe THEN Nil ELSE Err("nil")
  IN CASE from.t = "arr" ->
            IF ~IsNum(i) THEN Err("type")
            ELSE LET n == ToIntIdx(i)
                 IN IF n < 0 \/ n >= Len(from.a) THEN Err("index") ELSE from.a[n + 1]
       [] from.t = "str" ->
            IF ~IsNum(i) THEN Err("type")
            ELSE LET n == ToIntIdx(i)
                 IN IF n < 0 \/ n >= Len(from.s) THEN Err("index")
                    ELSE IntK("uint8", Ord(Ch(from.s, n + 1)))
       [] from.t = "map" ->
            IF ~IsStr(i) THEN Err("type") ELSE MapGet(from, i.s)
       [] from.t = "obj" ->
            IF IsStr(i) /\ i.s \in DOMAIN from.f THEN from.f[i.s] ELSE miss
       [] from.t = "ptr" ->
            IF from.isnil THEN miss
            ELSE IF IsStr(i) /\ i.s \in DOMAIN from.to.f THEN from.to.f[i.s] ELSE miss
       [] OTHER -> miss

(* runtime.slice(array, from, to) with its clamping rule *)
Slice(x, from, to) ==
  IF ~(IsNum(from) /\ IsNum(to)) THEN Err("type")
  ELSE IF x.t \notin {"arr", "str"} THEN Err("type")
  ELSE LET len == IF x.t = "arr" THEN Len(x.a) ELSE Len(x.s)
           b0 == ToIntIdx(to)
           a0 == ToIntIdx(from)
           b == IF b0 > len THEN len ELSE b0
           a == IF a0 > b THEN b ELSE a0
       IN IF a < 0 \/ b < 0 THEN Err("index")
          ELSE IF x.t = "arr" THEN Arr(x.et, SubSeq(x.a, a + 1, b))
          ELSE Str(SubSeq(x.s, a + 1, b))

Length(x) == CASE x.t = "arr" -> IntV(Len(x.a))
               [] x.t = "str" -> IntV(Len(x.s))
               [] x.t = "map" -> IntV(Len(x.mk))
               [] OTHER -> Err("type")

(* runtime.in(needle, array) *)
RECURSIVE In(_, _, _)
In(x, c, dv) ==
  CASE c.t = "nil" -> Bool(FALSE)
    [] c.t = "arr" -> Bool(\E i \in 1..Len(c.a) : EqualB(c.a[i], x, dv))
    [] c.t = "map" -> IF ~IsStr(x) THEN Err("type") ELSE Bool(MapIdx(c, x.s) # {})
    [] c.t = "iset" -> IF IsInt(x) /\ x.k = "int" THEN Bool(\E i \in 1..Len(c.ks) : c.ks[i] = x.n) ELSE Err("type")
    [] c.t = "sset" -> IF IsStr(x) THEN Bool(\E i \in 1..Len(c.ks) : c.ks[i] = x.s) ELSE Err("type")
    [] c.t = "obj" -> IF ~IsStr(x) THEN Err("type") ELSE Bool(x.s \in DOMAIN c.f)
    [] c.t = "ptr" -> IF c.isnil THEN Bool(FALSE) ELSE In(x, c.to, dv)
    [] OTHER -> Err("type")

(* a..b : inclusive integer range, empty when the end precedes the start *)
RangeSize(a, b) == IF b - a + 1 > 0 THEN b - a + 1 ELSE 0
RangeVal(a, b)  == Arr("int", [i \in 1..RangeSize(a, b) |-> IntV(a + i - 1)])

(* Cast under AsInt64 / AsFloat64 *)
Cast(v, k) == Conv(v, k)

(* number of collection elements a value's construction allocated is       *)
(* accounted by the evaluators, not here                                   *)
=============================================================================

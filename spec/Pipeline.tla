------------------------------ MODULE Pipeline ------------------------------
(***************************************************************************)
(* expr.Compile / expr.Eval / expr.Run as a pipeline of stages (C04).      *)
(* Every stage yields "ok", "error" (a returned error) or "panic"; a panic *)
(* travels up to the nearest recover boundary.  The code has exactly three *)
(* boundaries: compiler.Compile, the constant-expression call of the       *)
(* optimizer, VM.Run.  The state is the configuration (chosen in Init),    *)
(* the stage reached and the outcome so far; one step runs one stage:      *)
(*                                                                         *)
(*   options -> configcheck -> parse -> check -> patchops -> visitors ->   *)
(*   recheck -> optimize -> codegen -> (run)                               *)
(*                                                                         *)
(* NoEscape: no behaviour ends in "panic" - with Devs = {} (as designed)   *)
(* TLC checks it on every configuration; with the deviations of the pinned *)
(* tree switched on it names the configurations whose panic escapes, which *)
(* is how a panicking real execution is attributed to a known finding.     *)
(* ErrorXorResult: an error is returned iff no program/value is.           *)
(*                                                                         *)
(* A configuration is a choice per dimension; the harness maps each choice *)
(* to concrete options, a concrete source text of the expression class and *)
(* a concrete environment value.                                           *)
(***************************************************************************)
EXTENDS Integers, Sequences, FiniteSets, TLC, Json

CONSTANTS Devs,          \* set of deviation names switched on
          PipeEmit       \* "cases" | "none"

EnvKinds   == {"none", "struct", "ptr", "map", "mapnil"}           \* mapnil: a map environment with a nil member
Expects    == {"none", "bool", "int64", "float64"}
Operators  == {"none", "ok", "missing", "illshaped", "nonfunc", "nilmember"}
ConstExprs == {"none", "ok", "missing", "nonfunc", "panicking", "beforeenv", "nilmember"}
Patches    == {"none", "identity", "replaceleaf", "constnode", "replaceroot"}
ExprClasses == {"bool", "int", "float", "string", "nil", "any", "ill", "unknown", "syntax", "lexical", "empty",
                "boom", "nilfn", "closure", "plus", "constcall", "huge", "extreme", "widetext",
                \* a sub-tree that stands in two slots of its parent, nested deep: `((a ?: 1) ?: 1) ...` (the parser puts the
                \* condition of `c ?: b` in the first branch too), `1 in 1..2 in 1..2 ...` (the range rewrite copies its left operand)
                "sharedtree"}
RunEnvs    == {"zero", "nil", "wrongtypes", "nilmembers"}

Cfg == [env : EnvKinds, undef : BOOLEAN, opt : BOOLEAN, expect : Expects, operator : Operators,
        constexpr : ConstExprs, patch : Patches, expr : ExprClasses, runenv : RunEnvs]

(* configurations that make sense together (an operator or constant-expression *)
(* option names a member of the environment, so it needs one)                  *)
Sensible(c) ==
  /\ (c.operator # "none" => c.env # "none" /\ c.expr \in {"plus", "int", "ill", "nil"})
  /\ (c.constexpr \notin {"none", "beforeenv"} => c.env # "none")
  /\ (c.constexpr # "none" => c.expr \in {"constcall", "int", "unknown"})
  /\ (c.operator = "nilmember" => c.env = "mapnil")
  /\ (c.constexpr = "nilmember" => c.env = "mapnil")
  /\ (c.env = "mapnil" => c.runenv \in {"zero", "nilmembers"})
  /\ (c.patch # "none" => c.expr \in {"int", "bool", "ill", "unknown", "closure", "nil"})
  /\ (c.runenv = "wrongtypes" => c.env \in {"map", "none"})
  /\ (c.expr = "sharedtree" => c.env = "none" /\ ~c.undef /\ c.expect = "none" /\ c.operator = "none" /\ c.constexpr = "none"
                                /\ c.patch = "none" /\ c.runenv = "zero")

Stages == <<"options", "configcheck", "parse", "check", "patchops", "visitors", "recheck", "optimize", "codegen", "run">>

VARIABLES cfg, at, outcome
pvars == <<cfg, at, outcome>>

(* what a stage yields for a configuration *)
StageResult(c, st, dv) ==
  LET Dev(d) == d \in dv IN
  CASE st = "options" ->
         IF c.constexpr = "missing" /\ Dev("Dev_ConstExprMissingPanics") THEN "panic"   \* vm.FetchFn panics inside the option
         ELSE "ok"                                        \* errors of options are recorded and returned by configcheck
    [] st = "configcheck" ->
         IF c.operator = "nilmember" /\ Dev("Dev_OperatorNilMember") THEN "panic"         \* Kind() of a nil reflect.Type
         ELSE IF c.operator \in {"missing", "illshaped", "nonfunc", "nilmember"} THEN "error"
         ELSE IF c.constexpr \in {"missing", "nonfunc", "beforeenv", "nilmember"} THEN "error"
         ELSE "ok"
    [] st = "parse" -> IF c.expr \in {"syntax", "lexical", "empty"} THEN "error"
                       ELSE IF c.expr \in {"extreme", "widetext"} THEN "maybe-error" ELSE "ok"
    [] st = "check" ->
         \* every pass visits a node once per slot it stands in: 2^depth visits (Dev_SharedSubtreeExponential)
         IF c.expr = "sharedtree" /\ Dev("Dev_SharedSubtreeExponential") THEN "hang"
         ELSE IF c.env = "mapnil" /\ c.expr \in {"any", "closure"} /\ Dev("Dev_NilMemberType") THEN "panic"   \* a nil member has a nil type
         ELSE IF c.expect # "none" /\ c.expr = "nil" /\ Dev("Dev_ExpectOnNilType") THEN "panic"         \* Kind() of the nil type
         ELSE IF c.patch # "none" THEN "ok"               \* with visitors the first check's error is deferred to recheck
         ELSE IF c.expr \in {"ill"} THEN "error"
         ELSE IF c.expr = "unknown" /\ c.env # "none" /\ ~c.undef THEN "error"
         ELSE IF c.expect = "bool" /\ c.expr \notin {"bool", "any", "unknown", "nil"} THEN "error"
         ELSE IF c.expr \in {"extreme", "widetext"} THEN "maybe-error"     \* classes that mix accepted and rejected sources
         ELSE IF c.expect \in {"int64", "float64"} /\ c.expr \notin {"int", "float", "any", "plus", "boom", "nilfn", "constcall", "unknown"} THEN "error"
         ELSE "ok"
    [] st = "patchops" -> "ok"
    [] st = "visitors" -> "ok"
    [] st = "recheck" ->
         IF c.patch = "constnode" /\ Dev("Dev_CheckerUnknownConstantNode") THEN "panic"   \* a node kind the checker does not know
         ELSE IF c.expect # "none" /\ c.expr = "nil" /\ Dev("Dev_ExpectOnNilType") THEN "panic"
         ELSE IF c.patch # "none" /\ c.expr = "ill" THEN "error"
         ELSE IF c.patch # "none" /\ c.expr = "unknown" /\ c.env # "none" /\ ~c.undef /\ c.patch \notin {"replaceleaf", "replaceroot"} THEN "error"
         ELSE "ok"
    [] st = "optimize" ->
         IF ~c.opt THEN "ok"
         ELSE IF c.constexpr = "panicking" THEN "error"   \* recovered by the constant-expression pass
         ELSE "ok"
    [] st = "codegen" -> IF c.expr = "huge" THEN "error" ELSE "ok"     \* a panic of the code generator is recovered
    [] st = "run" -> IF c.expr \in {"boom", "nilfn"} \/ c.runenv # "zero" THEN "maybe-error" ELSE "ok"   \* every panic is recovered

Init == /\ cfg \in {c \in Cfg : Sensible(c)}
        /\ at = 1 /\ outcome = "ok"

Advance ==
  /\ outcome = "ok" /\ at <= Len(Stages)
  /\ LET r == StageResult(cfg, Stages[at], Devs)
     IN /\ outcome' = (IF r = "maybe-error" THEN "ok" ELSE r)
        /\ at' = at + 1
  /\ UNCHANGED cfg
Next == Advance

Done == outcome # "ok" \/ at > Len(Stages)

(* C04 on the design *)
NoEscape == outcome \notin {"panic", "hang"}

(* the outcome of the whole pipeline for a configuration under a set of deviations *)
RECURSIVE RunPipe(_, _, _)
RunPipe(c, dv, i) ==
  IF i > Len(Stages) THEN "ok"
  ELSE LET r == StageResult(c, Stages[i], dv)
       IN IF r \in {"ok", "maybe-error"} THEN RunPipe(c, dv, i + 1) ELSE r

AllDevs == {"Dev_ConstExprMissingPanics", "Dev_OperatorNilMember", "Dev_NilMemberType", "Dev_ExpectOnNilType",
            "Dev_CheckerUnknownConstantNode", "Dev_SharedSubtreeExponential"}
(* the deviations under which this configuration's panic escapes *)
EscapesUnder(c) == {d \in AllDevs : RunPipe(c, {d}, 1) \in {"panic", "hang"}}

PipeCase == [cfg |-> cfg, designed |-> RunPipe(cfg, {}, 1), hazards |-> EscapesUnder(cfg)]
EmitPipe == (at = 1 /\ PipeEmit = "cases") => PrintT(ToJson(PipeCase))
=============================================================================

------------------------------ MODULE Lexical ------------------------------
(***************************************************************************)
(* The lexical reference of expr (C12): what a literal denotes and where a *)
(* token is.  Source text is a sequence of symbolic characters: a          *)
(* printable ASCII character is the one-character string, every other      *)
(* character has a name ("<LF>", "<E9>" ...) that the harness maps to its  *)
(* UTF-8 bytes; Code gives the code point.  One symbol is one rune, which  *)
(* is what columns count.                                                  *)
(*                                                                         *)
(*   Quote(v, q, style)   the source of a string literal for the value v   *)
(*   Unquote(src)         the value a string literal denotes               *)
(*   IntSpell / FloatSpell  spellings of numbers, with their class, base   *)
(*                        and canonical digits                             *)
(*   Layout(toks, seps)   the text of a token sequence under a layout and  *)
(*                        the (line, column) of each token's first rune    *)
(***************************************************************************)
EXTENDS Integers, Sequences, FiniteSets, TLC

Ascii == " !\"#$%&'()*+,-./0123456789:;<=>?@ABCDEFGHIJKLMNOPQRSTUVWXYZ[\\]^_`abcdefghijklmnopqrstuvwxyz{|}~"
Ch(i) == SubSeq(Ascii, i, i)

Special == [LF |-> 10, CR |-> 13, TAB |-> 9, BEL |-> 7, NUL |-> 0, DEL |-> 127, BS |-> 8, FF |-> 12, VT |-> 11,
            NBSP |-> 160, E9 |-> 233, U4E16 |-> 19990, U1F600 |-> 128512,
            XFF |-> 1114112]        \* XFF: a byte that is not UTF-8 (no code point)
Sym(name) == "<" \o name \o ">"
SpecialNames == DOMAIN Special

(* code point of a symbol *)
Code(c) == IF Len(c) = 1 THEN 31 + (CHOOSE i \in 1..Len(Ascii) : Ch(i) = c)
           ELSE Special[CHOOSE nm \in SpecialNames : Sym(nm) = c]

DQ == "\""
SQ == "'"
BSL == "\\"

IsDigit(c)  == c \in {"0", "1", "2", "3", "4", "5", "6", "7", "8", "9"}
IsLetter(c) == (Len(c) = 1 /\ ((Code(c) >= 65 /\ Code(c) <= 90) \/ (Code(c) >= 97 /\ Code(c) <= 122)))
               \/ c \in {Sym("E9"), Sym("U4E16")}
IsAlpha(c)  == c \in {"_", "$"} \/ IsLetter(c)
IsAlnum(c)  == IsAlpha(c) \/ IsDigit(c)
IsSpaceCh(c) == c \in {" ", Sym("LF"), Sym("CR"), Sym("TAB"), Sym("FF"), Sym("VT"), Sym("NBSP")}

---------------------------------------------------------------------------
(* digits *)
HexDigitsL == "0123456789abcdef"
HexDigitsU == "0123456789ABCDEF"
HexCh(d, upper) == IF upper THEN SubSeq(HexDigitsU, d + 1, d + 1) ELSE SubSeq(HexDigitsL, d + 1, d + 1)
RECURSIVE Pow(_, _)
Pow(b, e) == IF e = 0 THEN 1 ELSE b * Pow(b, e - 1)
(* n written with exactly w digits in base b, as a sequence of characters *)
Digits(n, b, w, upper) == [i \in 1..w |-> HexCh((n \div Pow(b, w - i)) % b, upper)]
DigitVal(c) == IF IsDigit(c) THEN Code(c) - 48
               ELSE IF Code(c) >= 97 THEN Code(c) - 87 ELSE Code(c) - 55
RECURSIVE ValOf(_, _, _)
(* the number a sequence of digit characters denotes in base b (acc: value so far) *)
ValOf(ds, b, acc) == IF ds = <<>> THEN acc ELSE ValOf(Tail(ds), b, acc * b + DigitVal(Head(ds)))

---------------------------------------------------------------------------
(* String literals *)
NamedEsc(c, q) ==
  CASE c = Sym("LF") -> "n" [] c = Sym("CR") -> "r" [] c = Sym("TAB") -> "t" [] c = Sym("BEL") -> "a"
    [] c = Sym("BS") -> "b" [] c = Sym("FF") -> "f" [] c = Sym("VT") -> "v"
    [] c = BSL -> BSL [] c = q -> q [] OTHER -> ""

MustEscape(c, q) == c \in {q, BSL, Sym("LF"), Sym("CR")}

(* the source characters that spell value character c inside a literal quoted by q *)
Spell(c, q, style) ==
  LET named == IF NamedEsc(c, q) = "" THEN <<c>> ELSE <<BSL, NamedEsc(c, q)>>
      code == Code(c)
  IN CASE style = "raw"   -> IF MustEscape(c, q) THEN named ELSE <<c>>
       [] style = "named" -> named
       \* (\xHH and \ooo name the code point HH / ooo, also above 0x7F: the repository's tests pin "\xC3\xBF" = "Ã¿")
       [] style = "hex"   -> IF code < 256 THEN <<BSL, "x">> \o Digits(code, 16, 2, FALSE) ELSE <<c>>
       [] style = "HEX"   -> IF code < 256 THEN <<BSL, "x">> \o Digits(code, 16, 2, TRUE) ELSE <<c>>
       [] style = "oct"   -> IF code < 256 THEN <<BSL>> \o Digits(code, 8, 3, FALSE) ELSE <<c>>
       [] style = "u4"    -> IF code < 65536 THEN <<BSL, "u">> \o Digits(code, 16, 4, FALSE)
                             ELSE <<BSL, "U">> \o Digits(code, 16, 8, TRUE)
       [] style = "U8"    -> <<BSL, "U">> \o Digits(code, 16, 8, FALSE)
Styles == <<"raw", "named", "hex", "HEX", "oct", "u4", "U8">>

RECURSIVE QuoteBody(_, _, _, _)
(* style "mix": the i-th character is spelled in style number (i mod 7) + 1 *)
QuoteBody(v, i, q, style) ==
  IF i > Len(v) THEN <<>>
  ELSE Spell(v[i], q, (IF style = "mix" THEN Styles[(i % 7) + 1] ELSE style)) \o QuoteBody(v, i + 1, q, style)
Quote(v, q, style) == <<q>> \o QuoteBody(v, 1, q, style) \o <<q>>

(* the character with a given code point, if it has a symbol *)
HasSym(code) == (code >= 32 /\ code <= 126) \/ \E nm \in SpecialNames : Special[nm] = code
SymOf(code) == IF code >= 32 /\ code <= 126 THEN Ch(code - 31)
               ELSE Sym(CHOOSE nm \in SpecialNames : Special[nm] = code)

IsHexCh(c) == Len(c) = 1 /\ (IsDigit(c) \/ c \in {"a", "b", "c", "d", "e", "f", "A", "B", "C", "D", "E", "F"})
IsOctCh(c) == c \in {"0", "1", "2", "3", "4", "5", "6", "7"}

(* Reference decoding of the body of a literal (without its quotes):        *)
(* [ok |-> TRUE, v |-> value] or [ok |-> FALSE, out] (out: a code point outside the modelled characters).  Raw CR denotes LF (newline *)
(* normalisation); an escape denotes the code point it names.               *)
RECURSIVE Decode(_, _, _)
Decode(s, q, acc) ==
  IF s = <<>> THEN [ok |-> TRUE, v |-> acc]
  ELSE IF s[1] # BSL
  THEN IF s[1] = Sym("CR")
       THEN Decode((IF Len(s) > 1 /\ s[2] = Sym("LF") THEN SubSeq(s, 3, Len(s)) ELSE Tail(s)), q, Append(acc, Sym("LF")))
       ELSE Decode(Tail(s), q, Append(acc, s[1]))
  ELSE IF Len(s) < 2 THEN [ok |-> FALSE, out |-> FALSE]
  ELSE LET e == s[2]
           rest == SubSeq(s, 3, Len(s))
           simple == CASE e = "n" -> Sym("LF") [] e = "r" -> Sym("CR") [] e = "t" -> Sym("TAB") [] e = "a" -> Sym("BEL")
                       [] e = "b" -> Sym("BS") [] e = "f" -> Sym("FF") [] e = "v" -> Sym("VT")
                       [] e = BSL -> BSL [] e = q -> q [] OTHER -> ""
           n == CASE e = "x" -> 2 [] e = "u" -> 4 [] e = "U" -> 8 [] OTHER -> 0
       IN IF simple # "" THEN Decode(rest, q, Append(acc, simple))
          ELSE IF n > 0
          THEN IF Len(rest) >= n /\ \A i \in 1..n : IsHexCh(rest[i])
               THEN LET code == ValOf(SubSeq(rest, 1, n), 16, 0)
                    IN IF HasSym(code) THEN Decode(SubSeq(rest, n + 1, Len(rest)), q, Append(acc, SymOf(code)))
                       ELSE [ok |-> FALSE, out |-> TRUE]     \* outside the modelled characters
               ELSE [ok |-> FALSE, out |-> FALSE]
          ELSE IF e \in {"0", "1", "2", "3"}
          THEN IF Len(rest) >= 2 /\ IsOctCh(rest[1]) /\ IsOctCh(rest[2])
               THEN LET code == ValOf(<<e, rest[1], rest[2]>>, 8, 0)
                    IN IF HasSym(code) THEN Decode(SubSeq(rest, 3, Len(rest)), q, Append(acc, SymOf(code)))
                       ELSE [ok |-> FALSE, out |-> TRUE]
               ELSE [ok |-> FALSE, out |-> FALSE]
          ELSE [ok |-> FALSE, out |-> FALSE]
Unquote(src) == Decode(SubSeq(src, 2, Len(src) - 1), src[1], <<>>)

---------------------------------------------------------------------------
(* Number spellings.  A spelling is a sequence of characters; the reference *)
(* class of a spelling of the documented forms is:                          *)
(*   0x / 0X followed by hexadecimal digits  -> integer, base 16            *)
(*   digits (with _ separators)              -> integer, base 10            *)
(*   digits . digits / exponent forms        -> float                       *)
(* Canon removes the separators (and the base prefix of an integer).        *)
Strip(s) == SelectSeq(s, LAMBDA c : c # "_")
IsHexSpelling(s) == Len(s) >= 3 /\ s[1] = "0" /\ s[2] \in {"x", "X"}
NumClass(s) == IF IsHexSpelling(s) THEN "int"
               ELSE IF \E i \in 1..Len(s) : s[i] \in {".", "e", "E"} THEN "float" ELSE "int"
NumBase(s) == IF IsHexSpelling(s) THEN 16 ELSE 10
Canon(s) == IF IsHexSpelling(s) THEN Strip(SubSeq(s, 3, Len(s))) ELSE Strip(s)
(* the value of an integer spelling, when TLC can hold it *)
IntVal(s) == ValOf(Canon(s), NumBase(s), 0)

---------------------------------------------------------------------------
(* Token sequences under a layout.  A token is [k |-> kind, s |-> source     *)
(* characters, v |-> value characters]; seps[i] is the white space written   *)
(* before token i (seps[Len(toks)+1]: after the last).  Positions: line from *)
(* 1, column from 0, both counted in runes; <LF> ends a line.                *)
LTok(k, s, v) == [k |-> k, s |-> s, v |-> v]

RECURSIVE Advance(_, _, _)
(* position after writing the characters cs starting at (line, col) *)
Advance(cs, line, col) ==
  IF cs = <<>> THEN <<line, col>>
  ELSE IF Head(cs) = Sym("LF") THEN Advance(Tail(cs), line + 1, 0) ELSE Advance(Tail(cs), line, col + 1)

RECURSIVE LayoutFrom(_, _, _, _, _, _, _)
LayoutFrom(toks, seps, i, line, col, src, pos) ==
  IF i > Len(toks) THEN [src |-> src \o seps[i], pos |-> pos,
                         eof |-> Advance(seps[i], line, col)]
  ELSE LET a == Advance(seps[i], line, col)
           b == Advance(toks[i].s, a[1], a[2])
       IN LayoutFrom(toks, seps, i + 1, b[1], b[2], src \o seps[i] \o toks[i].s,
                     Append(pos, [line |-> a[1], col |-> a[2]]))
Layout(toks, seps) == LayoutFrom(toks, seps, 1, 1, 0, <<>>, <<>>)
=============================================================================

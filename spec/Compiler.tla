------------------------------ MODULE Compiler ------------------------------
(***************************************************************************)
(* compiler/compiler.go as emission operators producing bytes: one scheme  *)
(* per node kind, the constant pool with de-duplication, placeholder /     *)
(* patchJump / calcBackwardJump with the two-byte operand encoding         *)
(*      Enc(x) == x % OperandMod     (the silent truncation of the code)   *)
(* OperandMod is 65536 for conformance with the real compiler and a small  *)
(* number in the small-scope configuration that explores programs whose    *)
(* jump distance crosses the operand range (MC_VM, C05).                   *)
(*                                                                         *)
(* Type-directed selection (C15) needs the static type the checker assigns *)
(* to each node: ImplType below follows Types.tla.  mode is "typed"        *)
(* (Compile with Env(struct)), "map" (Env(map[string]interface{})) or      *)
(* "untyped" (Eval, or Compile without Env).                               *)
(***************************************************************************)
EXTENDS VM

CONSTANT OperandMod

Enc(x) == LET y == x % OperandMod IN <<y % 256, y \div 256>>

(* static types as the checker computes them; cols = stack of collection types *)
RECURSIVE RefType(_, _), RefTypes(_, _, _)
RefTypes(ts, cols, i) == IF i > Len(ts) THEN <<>> ELSE <<RefType(ts[i], cols)>> \o RefTypes(ts, cols, i + 1)
RefType(t, cols) ==
  CASE t.k = "nil" -> "nil"
    [] t.k = "bool" -> "bool"
    [] t.k = "int" -> "int"
    [] t.k = "float" -> "float64"
    [] t.k = "str" -> "string"
    [] t.k = "id" -> IF t.name \in DOMAIN MemberType THEN MemberType[t.name] ELSE REJECT
    [] t.k = "ptr" -> IF Len(cols) = 0 THEN REJECT ELSE ElemT(cols[Len(cols)])
    [] t.k = "un" -> LET a == RefType(t.x, cols) IN IF a = REJECT THEN REJECT ELSE TyUn(t.op, a)
    [] t.k = "bin" -> LET a == RefType(t.l, cols)  b == RefType(t.r, cols)
                      IN IF a = REJECT \/ b = REJECT THEN REJECT ELSE TyBin(t.op, a, b, {})
    [] t.k = "prop" -> LET a == RefType(t.x, cols)
                       IN IF a = REJECT THEN REJECT
                          ELSE LET r == TyProp(a, t.name) IN IF r = REJECT /\ t.ns THEN "nil" ELSE r
    [] t.k = "idx" -> LET a == RefType(t.x, cols)  b == RefType(t.i, cols)
                      IN IF a = REJECT \/ b = REJECT THEN REJECT ELSE TyIdx(a, b)
    [] t.k = "slice" -> LET a == RefType(t.x, cols)
                            f == IF t.from.k = "none" THEN "int" ELSE RefType(t.from, cols)
                            g == IF t.to.k = "none" THEN "int" ELSE RefType(t.to, cols)
                        IN IF a = REJECT \/ f = REJECT \/ g = REJECT THEN REJECT
                           ELSE TySlice(a, t.from.k # "none", f, t.to.k # "none", g)
    [] t.k = "call" -> IF t.name \notin DOMAIN FnSig THEN REJECT
                       ELSE LET tys == RefTypes(t.args, cols, 1)
                            IN IF \E i \in 1..Len(tys) : tys[i] = REJECT THEN REJECT
                               ELSE TyCall(FnSig[t.name], t.args, tys)
    [] t.k = "meth" -> LET a == RefType(t.x, cols)  tys == RefTypes(t.args, cols, 1)
                       IN IF a = REJECT \/ (\E i \in 1..Len(tys) : tys[i] = REJECT) THEN REJECT
                          ELSE IF t.name \notin DOMAIN MethSig \/ a \notin {"Obj", "*Obj", "any"} THEN REJECT
                          ELSE IF t.name = "Bump" /\ a = "Obj" THEN REJECT
                          ELSE IF a = "any" THEN "any" ELSE TyCall(MethSig[t.name], t.args, tys)
    [] t.k = "len" -> LET a == RefType(t.x, cols) IN IF a = REJECT THEN REJECT ELSE TyLen(a)
    [] t.k = "bi" -> LET a == RefType(t.x, cols)
                     IN IF a = REJECT \/ ~IsArrT(a) THEN REJECT
                        ELSE LET b == RefType(t.body, Append(cols, a))
                             IN IF b = REJECT THEN REJECT ELSE TyBuiltin(t.name, a, b)
    [] t.k = "cond" -> LET c == RefType(t.c, cols)  a == RefType(t.a, cols)  b == RefType(t.b, cols)
                       IN IF c = REJECT \/ a = REJECT \/ b = REJECT THEN REJECT ELSE TyCond(c, a, b)
    [] t.k = "arr" -> IF \E i \in 1..Len(t.xs) : RefType(t.xs[i], cols) = REJECT THEN REJECT ELSE "[]any"
    [] t.k = "map" -> IF \E i \in 1..Len(t.vs) : RefType(t.vs[i], cols) = REJECT THEN REJECT ELSE "map[string]any"

---------------------------------------------------------------------------
(* compiler state: c = [code, consts] *)
C0 == [code |-> <<>>, consts |-> <<>>, ovf |-> FALSE]

Hashable(v) == v.t \notin {"arr", "map", "iset", "sset"}
MakeConst(c, v) ==
  LET hit == IF Hashable(v) THEN {i \in 1..Len(c.consts) : c.consts[i] = v} ELSE {}
  IN IF hit # {} THEN [c |-> c, i |-> (CHOOSE i \in hit : TRUE) - 1]
     ELSE [c |-> [c EXCEPT !.consts = Append(@, v)], i |-> Len(c.consts)]

EmitOp(c, name) == [c EXCEPT !.code = Append(@, OpByte(name))]
EmitArg(c, name, a) == [c EXCEPT !.code = @ \o <<OpByte(name)>> \o Enc(a)]
EmitConst(c, name, v) == LET r == MakeConst(c, v) IN EmitArg(r.c, name, r.i)
EmitPush(c, v) == EmitConst(c, "OpPush", v)
(* emit a jump with a placeholder; ph = 0-based offset of its first operand byte *)
EmitPH(c, name) == [c |-> [c EXCEPT !.code = @ \o <<OpByte(name), 255, 255>>], ph |-> Len(c.code) + 1]
(* c.ovf records that an offset did not fit its operand: the compiler as      *)
(* designed rejects such a program; the pinned compiler encoded the offset    *)
(* modulo 2^16 and accepted it (Dev_JumpOffsetTruncated, repaired in /repo).  *)
Patch(c, ph) == LET off == Len(c.code) - 2 - ph
                    e == Enc(off)
                IN [c EXCEPT !.code = [@ EXCEPT ![ph + 1] = e[1], ![ph + 2] = e[2]],
                             !.ovf = @ \/ off >= OperandMod]
EmitBack(c, to) == LET off == Len(c.code) + 3 - to
                   IN [c EXCEPT !.code = @ \o <<OpByte("OpJumpBackward")>> \o Enc(off),
                                !.ovf = @ \/ off >= OperandMod]

BinOpcode(op) ==
  CASE op = "in" -> "OpIn" [] op = "<" -> "OpLess" [] op = ">" -> "OpMore" [] op = "<=" -> "OpLessOrEqual"
    [] op = ">=" -> "OpMoreOrEqual" [] op = "+" -> "OpAdd" [] op = "-" -> "OpSubtract" [] op = "*" -> "OpMultiply"
    [] op = "/" -> "OpDivide" [] op = "%" -> "OpModulo" [] op = "**" -> "OpExponent"
    [] op = "contains" -> "OpContains" [] op = "startsWith" -> "OpStartsWith" [] op = "endsWith" -> "OpEndsWith"
    [] op = ".." -> "OpRange"

(* the loop skeleton of emitLoop: head up to the body, tail after it *)
LoopHead(c0) ==
  LET ci == MakeConst(c0, Str("i"))
      cs == MakeConst(ci.c, Str("size"))
      ca == MakeConst(cs.c, Str("array"))
      c1 == EmitOp(ca.c, "OpLen")
      c2 == EmitArg(c1, "OpStore", cs.i)
      c3 == EmitArg(c2, "OpStore", ca.i)
      c4 == EmitPush(c3, IntV(0))
      c5 == EmitArg(c4, "OpStore", ci.i)
      cond == Len(c5.code)
      c6 == EmitArg(c5, "OpLoad", ci.i)
      c7 == EmitArg(c6, "OpLoad", cs.i)
      c8 == EmitOp(c7, "OpLess")
      e  == EmitPH(c8, "OpJumpIfFalse")
      c9 == EmitOp(e.c, "OpPop")
  IN [c |-> c9, cond |-> cond, endph |-> e.ph, i |-> ci.i, size |-> cs.i, array |-> ca.i]
LoopTail(c, h) ==
  LET c1 == EmitArg(c, "OpInc", h.i)
      c2 == EmitBack(c1, h.cond)
      c3 == Patch(c2, h.endph)
  IN EmitOp(c3, "OpPop")

RECURSIVE Comp(_, _, _), CompList(_, _, _, _), CompArgs(_, _, _, _, _), CompBase(_, _, _, _)

CompList(c, ts, i, cx) == IF i > Len(ts) THEN c ELSE CompList(Comp(c, ts[i], cx), ts, i + 1, cx)

(* arguments: a signed integer literal adopts the parameter's numeric kind *)
CompArgs(c, ts, ps, i, cx) ==
  IF i > Len(ts) THEN c
  ELSE LET rt == IF cx.mode # "untyped" /\ i <= Len(ps) /\ IsSignedIntLit(ts[i]) /\ ps[i] \in NumKinds THEN ps[i] ELSE ""
       IN CompArgs(Comp(c, ts[i], [cx EXCEPT !.retype = rt]), ts, ps, i + 1, cx)

(* the base of a nil-safe postfix step: an identifier directly followed by   *)
(* `?.` is itself fetched nil-safely (parser: IdentifierNode.NilSafe)        *)
CompBase(c, x, ns, cx) ==
  IF ns /\ x.k = "id" /\ cx.mode # "map" THEN EmitConst(c, "OpFetchNilSafe", Str(x.name)) ELSE Comp(c, x, cx)

Comp(c, t, cx0) ==
  LET cx == [cx0 EXCEPT !.retype = ""]       \* retyping reaches only literals and unary signs
      ty(x) == IF cx.mode = "untyped" THEN "untyped" ELSE RefType(x, cx.cols)
  IN
  CASE t.k = "nil"   -> EmitOp(c, "OpNil")
    [] t.k = "bool"  -> EmitOp(c, IF t.b THEN "OpTrue" ELSE "OpFalse")
    [] t.k = "int"   -> EmitPush(c, IF cx0.retype = "" THEN IntV(t.v) ELSE Conv(IntV(t.v), cx0.retype))
    [] t.k = "float" -> EmitPush(c, F64(t.m, t.e))
    [] t.k = "str"   -> EmitPush(c, Str(t.s))
    [] t.k = "id"    -> EmitConst(c, (IF cx.mode = "map" THEN "OpFetchMap" ELSE "OpFetch"), Str(t.name))
    [] t.k = "ptr"   -> LET a == EmitConst(c, "OpLoad", Str("array"))
                            b == EmitConst(a, "OpLoad", Str("i"))
                        IN EmitOp(b, "OpIndex")
    [] t.k = "un"    -> LET a == Comp(c, t.x, IF t.op \in {"+", "-"} THEN cx0 ELSE cx)
                        IN (CASE t.op \in {"not", "!"} -> EmitOp(a, "OpNot")
                              [] t.op = "-" -> EmitOp(a, "OpNegate")
                              [] t.op = "+" -> a)
    [] t.k = "bin" /\ t.op = "==" ->
         LET a == Comp(c, t.l, cx)  b == Comp(a, t.r, cx)
             l == ty(t.l)  r == ty(t.r)
         IN EmitOp(b, IF l = "int" /\ r = "int" THEN "OpEqualInt"
                      ELSE IF l = "string" /\ r = "string" THEN "OpEqualString" ELSE "OpEqual")
    [] t.k = "bin" /\ t.op = "!=" ->
         EmitOp(EmitOp(Comp(Comp(c, t.l, cx), t.r, cx), "OpEqual"), "OpNot")
    [] t.k = "bin" /\ t.op \in {"or", "||", "and", "&&"} ->
         LET a == Comp(c, t.l, cx)
             j == EmitPH(a, IF t.op \in {"or", "||"} THEN "OpJumpIfTrue" ELSE "OpJumpIfFalse")
             b == Comp(EmitOp(j.c, "OpPop"), t.r, cx)
         IN Patch(b, j.ph)
    [] t.k = "bin" /\ t.op = "not in" ->
         EmitOp(EmitOp(Comp(Comp(c, t.l, cx), t.r, cx), "OpIn"), "OpNot")
    [] t.k = "bin" /\ t.op = "matches" ->
         IF t.r.k = "str"
         THEN EmitConst(Comp(c, t.l, cx), "OpMatchesConst", ReC(t.r.s))
         ELSE EmitOp(Comp(Comp(c, t.l, cx), t.r, cx), "OpMatches")
    [] t.k = "bin" -> EmitOp(Comp(Comp(c, t.l, cx), t.r, cx), BinOpcode(t.op))
    [] t.k = "prop"  -> EmitConst(CompBase(c, t.x, t.ns, cx), (IF t.ns THEN "OpPropertyNilSafe" ELSE "OpProperty"), Str(t.name))
    [] t.k = "idx"   -> EmitOp(Comp(Comp(c, t.x, cx), t.i, cx), "OpIndex")
    [] t.k = "slice" ->          \* node, then To (or OpLen), then From (or 0): Dev_SliceToBeforeFrom
         LET a == Comp(c, t.x, cx)
             b == IF t.to.k = "none" THEN EmitOp(a, "OpLen") ELSE Comp(a, t.to, cx)
             d == IF t.from.k = "none" THEN EmitPush(b, IntV(0)) ELSE Comp(b, t.from, cx)
         IN EmitOp(d, "OpSlice")
    [] t.k = "meth"  ->
         LET a == CompBase(c, t.x, t.ns, cx)
             b == CompArgs(a, t.args, (IF t.name \in DOMAIN MethSig THEN MethSig[t.name].ps ELSE <<>>), 1, cx)
         IN EmitConst(b, (IF t.ns THEN "OpMethodNilSafe" ELSE "OpMethod"), CallC(t.name, Len(t.args)))
    [] t.k = "call"  ->
         LET sig == IF t.name \in DOMAIN FnSig THEN FnSig[t.name] ELSE [ps |-> <<>>, r |-> "any", var |-> FALSE]
             a == CompArgs(c, t.args, sig.ps, 1, cx)
             fast == cx.mode # "untyped" /\ sig.var
         IN EmitConst(a, (IF fast THEN "OpCallFast" ELSE "OpCall"), CallC(t.name, Len(t.args)))
    [] t.k = "len"   -> EmitOp(EmitOp(EmitOp(Comp(c, t.x, cx), "OpLen"), "OpRot"), "OpPop")
    [] t.k = "bi" ->
         LET inner == [cx EXCEPT !.cols = Append(@, IF cx.mode = "untyped" THEN "any" ELSE RefType(t.x, cx.cols))]
         IN
         (CASE t.name \in {"all", "none", "any"} ->
                LET a == EmitOp(Comp(c, t.x, cx), "OpBegin")
                    h == LoopHead(a)
                    b == Comp(h.c, t.body, inner)
                    b2 == IF t.name = "none" THEN EmitOp(b, "OpNot") ELSE b
                    j == EmitPH(b2, IF t.name = "any" THEN "OpJumpIfTrue" ELSE "OpJumpIfFalse")
                    d == LoopTail(EmitOp(j.c, "OpPop"), h)
                    e == EmitOp(d, IF t.name = "any" THEN "OpFalse" ELSE "OpTrue")
                IN EmitOp(Patch(e, j.ph), "OpEnd")
           [] t.name \in {"one", "count", "filter"} ->
                LET cc == MakeConst(c, Str("count"))
                    a == EmitOp(Comp(cc.c, t.x, cx), "OpBegin")
                    a2 == EmitArg(EmitPush(a, IntV(0)), "OpStore", cc.i)
                    h == LoopHead(a2)
                    b == Comp(h.c, t.body, inner)
                    \* emitCond
                    noop == EmitPH(b, "OpJumpIfFalse")
                    b1 == EmitArg(EmitOp(noop.c, "OpPop"), "OpInc", cc.i)
                    b2 == IF t.name = "filter"
                          THEN EmitOp(EmitConst(EmitConst(b1, "OpLoad", Str("array")), "OpLoad", Str("i")), "OpIndex")
                          ELSE b1
                    jmp == EmitPH(b2, "OpJump")
                    b3 == EmitOp(Patch(jmp.c, noop.ph), "OpPop")
                    b4 == Patch(b3, jmp.ph)
                    d == LoopTail(b4, h)
                    e == EmitArg(d, "OpLoad", cc.i)
                IN (CASE t.name = "one" -> EmitOp(EmitOp(EmitPush(e, IntV(1)), "OpEqual"), "OpEnd")
                      [] t.name = "count" -> EmitOp(e, "OpEnd")
                      [] t.name = "filter" -> EmitOp(EmitOp(e, "OpEnd"), "OpArray"))
           [] t.name = "map" ->
                LET a == EmitOp(Comp(c, t.x, cx), "OpBegin")
                    h == LoopHead(a)
                    b == Comp(h.c, t.body, inner)
                    d == LoopTail(b, h)
                IN EmitOp(EmitOp(EmitArg(d, "OpLoad", h.size), "OpEnd"), "OpArray"))
    [] t.k = "cond" ->
         LET a == Comp(c, t.c, cx)
             o == EmitPH(a, "OpJumpIfFalse")
             b == Comp(EmitOp(o.c, "OpPop"), t.a, cx)
             e == EmitPH(b, "OpJump")
             d == Comp(EmitOp(Patch(e.c, o.ph), "OpPop"), t.b, cx)
         IN Patch(d, e.ph)
    [] t.k = "arr" -> EmitOp(EmitPush(CompList(c, t.xs, 1, cx), IntV(Len(t.xs))), "OpArray")
    [] t.k = "map" ->
         LET RECURSIVE pairs(_, _)
             pairs(cc, i) == IF i > Len(t.ks) THEN cc
                             ELSE pairs(Comp(EmitPush(cc, Str(t.ks[i])), t.vs[i], cx), i + 1)
         IN EmitOp(EmitPush(pairs(c, 1), IntV(Len(t.ks))), "OpMap")

Cx0(mode) == [mode |-> mode, cols |-> <<>>, retype |-> ""]

(* compiler.Compile: the tree, then the cast requested by AsInt64/AsFloat64 *)
CompileProgram(t, mode, expect) ==
  LET c == Comp(C0, t, Cx0(mode))
      d == CASE expect = "int64" -> EmitArg(c, "OpCast", 0)
             [] expect = "float64" -> EmitArg(c, "OpCast", 1)
             [] OTHER -> c
  IN [code |-> d.code, consts |-> d.consts]

(* does the compiler as designed reject the tree (an offset or the constant  *)
(* pool exceeds the operand range)?                                          *)
CompileRejects(t, mode) == LET c == Comp(C0, t, Cx0(mode)) IN c.ovf \/ Len(c.consts) >= OperandMod
=============================================================================

------------------------------- MODULE MC_Err -------------------------------
(***************************************************************************)
(* Error positions (C13).  A fault is injected at a known place of a       *)
(* well-typed expression and the position the error must name is computed  *)
(* from the token sequence alone:                                          *)
(*                                                                         *)
(*  compile faults  an unknown name (identifier, field, method, function)  *)
(*                  or a type mismatch at one unary, binary or `matches`   *)
(*                  operator replaces a leaf of the tree: Compile must     *)
(*                  fail, naming the fault's anchor token (the name, the   *)
(*                  operator);                                             *)
(*  run faults      an operation that fails for the given environment      *)
(*                  (modulo by zero, a panicking or nil function, a field  *)
(*                  of a nil pointer, an index out of range) replaces an   *)
(*                  int-typed leaf of a tree that evaluates successfully:  *)
(*                  exactly one operation fails, the run must name its     *)
(*                  anchor (operator, function name, field name, `[`).     *)
(*                                                                         *)
(* The text is written by the minimal printer of Grammar.tla under two     *)
(* layouts (single line; irregular multi-line) and, for run faults, once   *)
(* more behind a string literal whose placeholder the harness replaces by  *)
(* multi-byte runes (the same number of runes, so the expected column is   *)
(* unchanged).                                                             *)
(***************************************************************************)
EXTENDS MC_Expr, Grammar

CONSTANT ErrMode      \* "compile" | "run"

RECURSIVE LeafPaths(_)
LeafPaths(t) == IF Kids(t) = <<>> THEN (IF t.k = "none" THEN {} ELSE {<<>>})
                ELSE UNION {{<<i>> \o p : p \in LeafPaths(Kids(t)[i])} : i \in 1..Len(Kids(t))}

SliceField(t, i) ==      \* which field the i-th child of a slice node is
  IF i = 1 THEN "x" ELSE IF i = 2 /\ t.from.k # "none" THEN "from" ELSE "to"
WithKid(t, i, u) ==
  CASE t.k \in {"un", "prop", "len"} -> [t EXCEPT !.x = u]
    [] t.k = "bin"  -> IF i = 1 THEN [t EXCEPT !.l = u] ELSE [t EXCEPT !.r = u]
    [] t.k = "meth" -> IF i = 1 THEN [t EXCEPT !.x = u] ELSE [t EXCEPT !.args[i - 1] = u]
    [] t.k = "idx"  -> IF i = 1 THEN [t EXCEPT !.x = u] ELSE [t EXCEPT !.i = u]
    [] t.k = "slice" -> CASE SliceField(t, i) = "x" -> [t EXCEPT !.x = u]
                          [] SliceField(t, i) = "from" -> [t EXCEPT !.from = u]
                          [] OTHER -> [t EXCEPT !.to = u]
    [] t.k = "call" -> [t EXCEPT !.args[i] = u]
    [] t.k = "bi"   -> IF i = 1 THEN [t EXCEPT !.x = u] ELSE [t EXCEPT !.body = u]
    [] t.k = "cond" -> CASE i = 1 -> [t EXCEPT !.c = u] [] i = 2 -> [t EXCEPT !.a = u] [] OTHER -> [t EXCEPT !.b = u]
    [] t.k = "arr"  -> [t EXCEPT !.xs[i] = u]
    [] t.k = "map"  -> [t EXCEPT !.vs[i] = u]
RECURSIVE Subst(_, _, _), TypeAt(_, _, _)
Subst(t, p, u) == IF p = <<>> THEN u ELSE WithKid(t, p[1], Subst(Kids(t)[p[1]], Tail(p), u))
(* static type of the sub-tree at path p (ctx: collection type of the innermost enclosing closure) *)
TypeAt(t, p, ctx) ==
  IF p = <<>> THEN TypeOf(t, ctx)
  ELSE TypeAt(Kids(t)[p[1]], Tail(p), (IF t.k = "bi" /\ p[1] = 2 THEN TypeOf(t.x, ctx) ELSE ctx))

(* static type of the collection of the innermost closure enclosing the sub-tree at path p ("" outside any) *)
RECURSIVE CtxAt(_, _, _)
CtxAt(t, p, ctx) ==
  IF p = <<>> THEN ctx
  ELSE CtxAt(Kids(t)[p[1]], Tail(p), (IF t.k = "bi" /\ p[1] = 2 THEN TypeOf(t.x, ctx) ELSE ctx))

---------------------------------------------------------------------------
(* faults: tokens, the 1-based offset of the anchor token, and for run faults  *)
(* the tree that is evaluated                                                  *)
Fault(name, toks, anchor, tree) == [name |-> name, toks |-> toks, anchor |-> anchor, tree |-> tree, ty |-> "int"]
BoolFault(name, toks, anchor, tree) == [name |-> name, toks |-> toks, anchor |-> anchor, tree |-> tree, ty |-> "bool"]
CompileFaults ==
  {Fault("unknown identifier", <<TId("Zq")>>, 1, NNil),
   Fault("unknown field", <<TId("O"), TOp("."), TId("Zq")>>, 3, NNil),
   Fault("unknown method", <<TId("O"), TOp("."), TId("Zq"), TBr("("), TBr(")")>>, 3, NNil),
   Fault("unknown function", <<TId("Zq"), TBr("("), TNum("1"), TBr(")")>>, 1, NNil),
   Fault("binary operator on mismatched types", <<TBr("("), TId("S"), TOp("**"), TNum("1"), TBr(")")>>, 3, NNil),
   Fault("logical operator on a number", <<TBr("("), TNum("1"), TOp("and"), TId("B"), TBr(")")>>, 3, NNil),
   Fault("string plus number", <<TBr("("), TId("S"), TOp("+"), TNum("1"), TBr(")")>>, 3, NNil),
   Fault("matches on a number", <<TBr("("), TNum("1"), TOp("matches"), TId("S"), TBr(")")>>, 3, NNil),
   Fault("not on a number", <<TBr("("), TOp("not"), TNum("1"), TBr(")")>>, 2, NNil),
   Fault("minus on a string", <<TBr("("), TOp("-"), TId("S"), TBr(")")>>, 2, NNil)}
(* C03: further single violations of a documented typing rule (the position   *)
(* they are reported at is not part of any claim: anchor 1)                    *)
MoreFaults ==
  {Fault("too many arguments", <<TId("Id"), TBr("("), TNum("1"), TOp(","), TNum("2"), TBr(")")>>, 1, NNil),
   Fault("too few arguments", <<TId("Add"), TBr("("), TNum("1"), TBr(")")>>, 1, NNil),
   Fault("string argument for an int parameter", <<TId("Id"), TBr("("), TId("S"), TBr(")")>>, 1, NNil),
   Fault("float member for an int parameter", <<TId("Id"), TBr("("), TId("F"), TBr(")")>>, 1, NNil),
   Fault("string concatenation for an int parameter", <<TId("Id"), TBr("("), TId("S"), TOp("+"), TId("S"), TBr(")")>>, 1, NNil),
   Fault("modulo of literals for an int8 parameter", <<TId("I8Id"), TBr("("), TNum("10"), TOp("%"), TNum("3"), TBr(")")>>, 1, NNil),
   Fault("negated modulo of literals for an int8 parameter", <<TId("I8Id"), TBr("("), TOp("-"), TBr("("), TNum("10"), TOp("%"), TNum("3"), TBr(")"), TBr(")")>>, 1, NNil),
   Fault("float arithmetic for an int parameter", <<TId("Id"), TBr("("), TId("F"), TOp("-"), TId("G"), TBr(")")>>, 1, NNil),
   Fault("integer arithmetic for a string parameter", <<TId("Cat"), TBr("("), TNum("1"), TOp("+"), TNum("2"), TOp(","), TId("S"), TBr(")")>>, 1, NNil),
   Fault("non-boolean condition", <<TBr("("), TNum("1"), TOp("?"), TNum("2"), TOp(":"), TNum("3"), TBr(")")>>, 1, NNil),
   Fault("non-boolean predicate", <<TId("all"), TBr("("), TId("Xs"), TOp(","), TBr("{"), TOp("#"), TBr("}"), TBr(")")>>, 1, NNil),
   Fault("non-collection builtin argument", <<TId("filter"), TBr("("), TId("I"), TOp(","), TBr("{"), TId("B"), TBr("}"), TBr(")")>>, 1, NNil),
   Fault("len of a number", <<TId("len"), TBr("("), TId("I"), TBr(")")>>, 1, NNil),
   Fault("string index into a slice", <<TId("Xs"), TBr("["), TId("S"), TBr("]")>>, 1, NNil),
   Fault("slice of a number", <<TId("I"), TBr("["), TNum("1"), TOp(":"), TBr("]")>>, 1, NNil),
   Fault("string as the only upper bound of a slice", <<TId("Xs"), TBr("["), TOp(":"), TId("S"), TBr("]")>>, 1, NNil),
   Fault("string as the only lower bound of a slice", <<TId("Xs"), TBr("["), TId("S"), TOp(":"), TBr("]")>>, 1, NNil),
   Fault("string as the upper bound of a slice", <<TId("Xs"), TBr("["), TNum("1"), TOp(":"), TId("S"), TBr("]")>>, 1, NNil),
   Fault("bool as the upper bound of a string slice", <<TId("S"), TBr("["), TOp(":"), TId("B"), TBr("]")>>, 1, NNil),
   Fault("unknown name as the only upper bound of a slice", <<TId("Xs"), TBr("["), TOp(":"), TId("Zq"), TBr("]")>>, 1, NNil),
   Fault("range over strings", <<TBr("("), TId("S"), TOp(".."), TNum("2"), TBr(")")>>, 1, NNil),
   Fault("comparison of a string with a number", <<TBr("("), TId("S"), TOp("<"), TNum("1"), TBr(")")>>, 1, NNil),
   Fault("equality of a string and a number", <<TBr("("), TId("S"), TOp("=="), TNum("1"), TBr(")")>>, 1, NNil),
   Fault("membership in a number", <<TBr("("), TNum("1"), TOp("in"), TId("I"), TBr(")")>>, 1, NNil),
   Fault("modulo of a float", <<TBr("("), TId("F"), TOp("%"), TNum("2"), TBr(")")>>, 1, NNil)}

(* C03: violations that are violations only by the type of the element the closure iterates over: the *)
(* current element `#` used against the element type of the innermost enclosing collection (wherever   *)
(* other builtins, over collections of other element types, come before or after it)                  *)
CtxFaults(elem) ==
  IF elem = "" THEN {}
  ELSE IF elem = "string"
  THEN {Fault("string element compared with a number", <<TBr("("), TOp("#"), TOp(">"), TNum("1"), TBr(")")>>, 1, NNil),
        Fault("string element plus a number", <<TBr("("), TOp("#"), TOp("+"), TNum("1"), TBr(")")>>, 1, NNil),
        Fault("minus on a string element", <<TBr("("), TOp("-"), TOp("#"), TBr(")")>>, 1, NNil),
        Fault("string element for an int parameter", <<TId("Id"), TBr("("), TOp("#"), TBr(")")>>, 1, NNil)}
  ELSE IF elem = "int"
  THEN {Fault("int element plus a string", <<TBr("("), TOp("#"), TOp("+"), TStr("a"), TBr(")")>>, 1, NNil),
        Fault("matches on an int element", <<TBr("("), TOp("#"), TOp("matches"), TStr("a"), TBr(")")>>, 1, NNil),
        Fault("logical operator on an int element", <<TBr("("), TOp("#"), TOp("and"), TId("B"), TBr(")")>>, 1, NNil),
        Fault("int element for a string parameter", <<TId("Cat"), TBr("("), TOp("#"), TOp(","), TStr("a"), TBr(")")>>, 1, NNil)}
  ELSE IF elem \in {"Obj", "*Obj"}
  THEN {Fault("struct element compared with a number", <<TBr("("), TOp("#"), TOp(">"), TNum("1"), TBr(")")>>, 1, NNil),
        Fault("unknown field of the element", <<TOp("#"), TOp("."), TId("Zq")>>, 1, NNil)}
  ELSE {}      \* (an element of dynamic or any other type: nothing is a violation by the element type alone)

RunFaults ==
  {Fault("modulo by zero", <<TBr("("), TId("J"), TOp("%"), TId("U8"), TBr(")")>>, 3, NBin("%", NId("J"), NId("U8"))),
   Fault("panicking function", <<TId("Boom"), TBr("("), TNum("1"), TBr(")")>>, 1, NCall("Boom", <<NInt(1)>>)),
   Fault("nil function", <<TId("NilFn"), TBr("("), TNum("1"), TBr(")")>>, 1, NCall("NilFn", <<NInt(1)>>)),
   Fault("field of a nil pointer", <<TId("P"), TOp("."), TId("N")>>, 3, NProp(NId("P"), "N", FALSE)),
   Fault("index out of range", <<TId("Xs"), TBr("["), TNum("7"), TBr("]")>>, 2, NIdx(NId("Xs"), NInt(7))),
   \* a name the environment value does not have (compiled without a declared environment type)
   Fault("name missing at run time", <<TId("Zq")>>, 1, NId("Zq")),
   \* boolean-typed operations that fail at run time: they replace a bool-typed leaf, so the failing operation can be
   \* the whole operand of `and`, `or`, `not`, a condition or a predicate
   BoolFault("comparison of a dynamic string with a number", <<TBr("("), TId("Any"), TOp("<"), TNum("1"), TBr(")")>>, 3,
             NBin("<", NId("Any"), NInt(1))),
   BoolFault("matches with a dynamic invalid pattern", <<TBr("("), TId("S"), TOp("matches"), TId("T"), TBr(")")>>, 3,
             NBin("matches", NId("S"), NId("T")))}
(* the environment values under which the run faults fail *)
FaultEnv == [U8 |-> IntK("uint8", 0), P |-> PtrNil("Obj"), Xs |-> IntArr(<<1, 2, 3>>), Any |-> Str("abc"), T |-> Str("(")]

Marker == NId("Zq")
IndexOfMarker(toks) == CHOOSE k \in 1..Len(toks) : toks[k] = TId("Zq")
(* the tokens of the tree with the fault at path p, and the index of the anchor token *)
Spliced(t, p, f) ==
  LET base == Min(Subst(t, p, Marker))
      k == IndexOfMarker(base)
  IN [toks |-> SubSeq(base, 1, k - 1) \o f.toks \o SubSeq(base, k + 1, Len(base)), anchor |-> k - 1 + f.anchor]

(* behind a string literal: ["ZQ8", <expr>][1] *)
Wrapped(sp) == [toks |-> <<TBr("["), TStr("ZQ8"), TOp(",")>> \o sp.toks \o <<TBr("]"), TBr("["), TNum("1"), TBr("]")>>,
                anchor |-> sp.anchor + 3]

Text(sp, layout) ==
  [text |-> (IF layout = "min" THEN TextMin(sp.toks) ELSE TextWild(sp.toks)),
   pos |-> (IF layout = "min" THEN PosMin(sp.toks, sp.anchor) ELSE PosWild(sp.toks, sp.anchor)),
   anchor |-> TokText(sp.toks[sp.anchor])]
(* the same with every two-word operator `not in` written over two lines (the lexer looks ahead across the line break) *)
HasNotIn(toks) == \E i \in 1..Len(toks) : toks[i] = TOp("not in")
Spread(sp) == [toks |-> SpreadNotIn(sp.toks), anchor |-> sp.anchor]
Texts2(sp) == <<Text(sp, "min"), Text(sp, "wild")>> \o (IF HasNotIn(sp.toks) THEN <<Text(Spread(sp), "wild"), Text(Spread(sp), "min")>> ELSE <<>>)

(* assignments of the members the faulty tree mentions, the fault's own members fixed *)
FaultAssignments(t2) ==
  {[m \in DOMAIN a \cup (DOMAIN FaultEnv \cap Mentions(t2)) |-> IF m \in DOMAIN FaultEnv THEN FaultEnv[m] ELSE a[m]] :
     a \in Assignments((Mentions(t2) \cap Members) \ DOMAIN FaultEnv)}

CompileCase(t, p, f) ==
  LET sp == Spliced(t, p, f)
  IN [kind |-> "compile", fault |-> f.name, n |-> n, texts |-> Texts2(sp)]

RunCase(t, p, f) ==
  LET sp == Spliced(t, p, f)
      t2 == Subst(t, p, f.tree)
      envs == {a \in FaultAssignments(t2) :
                 /\ Outcome(t, EnvOf(a), DefaultBudget, {}).ok            \* every other operation succeeds
                 /\ LET o == Outcome(t2, EnvOf(a), DefaultBudget, {})      \* and this one fails
                    IN ~o.ok /\ o.c # "outside"}
  IN [kind |-> "run", fault |-> f.name, n |-> n, envs |-> envs,
      texts |-> Texts2(sp) \o <<Text(Wrapped(sp), "wild"), Text(Wrapped(sp), "min")>>]

EmitErr ==
  \* (a constant pattern the parser rejects is reported at the pattern before any other fault is looked at)
  (Complete /\ ~HasConstBadPattern(Tree)) =>
    \A p \in LeafPaths(Tree) :
      IF ErrMode = "reject"
      THEN \A f \in CompileFaults \cup MoreFaults :
             LET sp == Spliced(Tree, p, f)
             IN (f.name = "unknown identifier" /\ sp.anchor < Len(sp.toks) /\ sp.toks[sp.anchor + 1] = TOp("?."))
                \/ PrintT(ToJson([kind |-> "reject", fault |-> f.name, n |-> n,
                                   texts |-> <<TextMin(sp.toks), TextWild(sp.toks)>>]))
      ELSE IF ErrMode = "ctx"
      THEN \A f \in CtxFaults(IF CtxAt(Tree, p, "") = "" THEN "" ELSE ElemT(CtxAt(Tree, p, ""))) :
             LET sp == Spliced(Tree, p, f)
             IN PrintT(ToJson([kind |-> "reject", fault |-> f.name, n |-> n,
                               texts |-> <<TextMin(sp.toks), TextWild(sp.toks)>>]))
      ELSE IF ErrMode = "compile"
      THEN \A f \in CompileFaults :
             \* (an unknown first identifier of a nil-safe chain, `Zq?.x`, is accepted by design)
             LET sp == Spliced(Tree, p, f)
             IN (f.name = "unknown identifier" /\ sp.anchor < Len(sp.toks) /\ sp.toks[sp.anchor + 1] = TOp("?."))
                \/ PrintT(ToJson(CompileCase(Tree, p, f)))
      ELSE \A f \in {g \in RunFaults : g.ty = TypeAt(Tree, p, "")} :
               LET c == RunCase(Tree, p, f) IN c.envs = {} \/ PrintT(ToJson(c))
=============================================================================

------------------------------ MODULE OpTable ------------------------------
(***************************************************************************)
(* The operator table of a configuration (C17): expr.Operator(op, fn...)   *)
(* calls append function names to the list of an operator; conf.Config.    *)
(* Check validates every name of every list; the operator patcher resolves *)
(* an occurrence `a op b` against the list in order.                       *)
(*                                                                         *)
(* State: the sequence of Operator() entries given so far (one [op, fn]    *)
(* per name; a call with several names is the same as several calls, which *)
(* the harness replays in both groupings).  For each table TLC emits       *)
(*   valid    every entry names a member that is a function (or method)    *)
(*            with exactly two parameters (besides the receiver) and one   *)
(*            result - anything else must be rejected by Compile, whatever *)
(*            the position of the bad entry in its list and whether or not *)
(*            the expression uses the operator;                            *)
(*   per expression of Exprs: the function the occurrence reaches - the    *)
(*            first entry of that operator, in order, whose parameter      *)
(*            types admit the operand types (equal, or the parameter is    *)
(*            interface{}) - or none (the operator keeps its built-in      *)
(*            meaning).                                                    *)
(* Invariants state the design facts the check relies on: validity is      *)
(* monotone (a table with a bad entry stays invalid when extended), and    *)
(* resolution is stable under appending entries for the same operator      *)
(* after a fitting one, and under entries for other operators.             *)
(***************************************************************************)
EXTENDS Integers, Sequences, FiniteSets, TLC, Json

CONSTANTS MaxEntries, OpEmit

VARIABLE tab

Fn(ps, nout, meth) == [kind |-> "func", params |-> ps, nout |-> nout, method |-> meth, ret |-> "other"]
BoolFn(ps) == [kind |-> "func", params |-> ps, nout |-> 1, method |-> FALSE, ret |-> "bool"]

(* the members of the harness environment that the tables name *)
Members ==
  [Add    |-> Fn(<<"int", "int">>, 1, FALSE),
   AddF   |-> Fn(<<"float64", "float64">>, 1, FALSE),
   AddAny |-> Fn(<<"any", "any">>, 1, FALSE),
   Cat    |-> Fn(<<"string", "string">>, 1, FALSE),
   MAdd   |-> Fn(<<"int", "int">>, 1, TRUE),              \* a method: the receiver does not count
   EqI    |-> BoolFn(<<"int", "int">>),                   \* a boolean result: the occurrence may stand under a negation
   Id     |-> Fn(<<"int">>, 1, FALSE),                    \* one parameter
   Var    |-> Fn(<<"variadic">>, 1, FALSE),               \* func(...interface{}): one parameter
   Add3   |-> Fn(<<"int", "int", "int">>, 1, FALSE),      \* three parameters
   Twice  |-> Fn(<<"int">>, 1, TRUE),                     \* a method with one parameter
   I      |-> [kind |-> "int"]]                           \* not a function
FnNames == DOMAIN Members \cup {"Nope"}                   \* Nope: no such member
Ops == {"+", "=="}

ValidFn(n) ==
  /\ n \in DOMAIN Members
  /\ Members[n].kind = "func"
  /\ Len(Members[n].params) = 2
  /\ Members[n].nout = 1
Valid(t) == \A i \in 1..Len(t) : ValidFn(t[i].fn)

Fits(ty, p) == ty = p \/ p = "any"
RECURSIVE ResolveFrom(_, _, _, _, _)
ResolveFrom(t, i, op, lt, rt) ==
  IF i > Len(t) THEN ""
  ELSE IF t[i].op = op /\ Fits(lt, Members[t[i].fn].params[1]) /\ Fits(rt, Members[t[i].fn].params[2])
       THEN t[i].fn
       ELSE ResolveFrom(t, i + 1, op, lt, rt)
Resolve(t, op, lt, rt) == ResolveFrom(t, 1, op, lt, rt)

(* occurrences: source, operator, static operand types *)
Occ(src, op, l, r) == [src |-> src, op |-> op, l |-> l, r |-> r, neg |-> FALSE]
NegOcc(src, op, l, r) == [src |-> src, op |-> op, l |-> l, r |-> r, neg |-> TRUE]     \* the occurrence under `not ( )` / `!( )`
IJ   == Occ("I + J", "+", "int", "int")
FG   == Occ("F + G", "+", "float64", "float64")
ST   == Occ("S + T", "+", "string", "string")
IF_  == Occ("I + F", "+", "int", "float64")
IeJ  == Occ("I == J", "==", "int", "int")
SeT  == Occ("S == T", "==", "string", "string")
ImJ  == Occ("I - J", "-", "int", "int")          \* an operator no table names
NIeJ == NegOcc("not (I == J)", "==", "int", "int")
BIeJ == NegOcc("!(I == J)", "==", "int", "int")
NSeT == NegOcc("not (S == T)", "==", "string", "string")
(* expressions: one occurrence, or several side by side in an array literal - each occurrence is resolved *)
(* on its own, whatever the operators and operand types of the occurrences walked before it              *)
ExprSeq ==
  <<<<IJ>>, <<FG>>, <<ST>>, <<IF_>>, <<IeJ>>, <<SeT>>, <<ImJ>>,
    <<IeJ, IJ>>, <<IJ, IeJ>>, <<SeT, ST>>, <<ImJ, IJ, IeJ>>, <<FG, IJ, ST>>,
    <<NIeJ>>, <<BIeJ>>, <<NSeT>>, <<NIeJ, IeJ>>>>
Exprs == UNION {{ExprSeq[i][k] : k \in 1..Len(ExprSeq[i])} : i \in 1..Len(ExprSeq)}

Init == tab = <<>>
Next == /\ Len(tab) < MaxEntries
        /\ \E op \in Ops, fn \in FnNames : tab' = Append(tab, [op |-> op, fn |-> fn])

(* design facts *)
Monotone == [][Valid(tab') => Valid(tab)]_tab
Stable ==
  [][Valid(tab') =>
       \A e \in Exprs : LET before == Resolve(tab, e.op, e.l, e.r)
                            after  == Resolve(tab', e.op, e.l, e.r)
                        IN /\ before # "" => after = before
                           /\ tab'[Len(tab')].op # e.op => after = before]_tab
NothingForUnmapped == Valid(tab) => \A e \in Exprs : e.op \notin Ops => Resolve(tab, e.op, e.l, e.r) = ""

Spec == Init /\ [][Next]_tab

TableCase ==
  [entries |-> tab, valid |-> Valid(tab),
   exprs |-> [i \in 1..Len(ExprSeq) |->
               [occs |-> [k \in 1..Len(ExprSeq[i]) |->
                            LET e == ExprSeq[i][k]
                                fn == IF Valid(tab) THEN Resolve(tab, e.op, e.l, e.r) ELSE ""
                            \* (a negated occurrence is well-typed only if what it resolves to yields a boolean)
                            IN [src |-> e.src, fn |-> fn, neg |-> e.neg,
                                illtyped |-> e.neg /\ fn # "" /\ Members[fn].ret # "bool"]]]]]
EmitTable == (Len(tab) >= 1 /\ OpEmit = "cases") => PrintT(ToJson(TableCase))
=============================================================================

------------------------------ MODULE VMShape ------------------------------
(***************************************************************************)
(* The stack-shape abstraction of the virtual machine (C05).               *)
(*                                                                         *)
(* VM.tla models the machine on abstract VALUES, which binds it to runs    *)
(* whose values lie in the model universe.  This module keeps only what    *)
(* C05 is about - where the machine is and how much it holds:              *)
(*                                                                         *)
(*      sh = [ip, depth, scopes]                                           *)
(*                                                                         *)
(* and states, per opcode (transcribed from the `switch op` of VM.Run),    *)
(* how many slots an instruction needs, how many it leaves, and where      *)
(* control may go next.  Values decide only which of the successors is     *)
(* taken (a conditional jump) and how many elements OpArray / OpMap pop    *)
(* (the size is itself popped from the stack), so ShapeNext is a small     *)
(* finite set.  Being value-free it applies to ANY program of the real     *)
(* compiler and any run of the real machine, in particular to the traffic  *)
(* of the repository's own test suite (Trace_Shape.tla), whose environment *)
(* types are outside the value universe of VM.tla.                         *)
(*                                                                         *)
(* A program here is [code, consts] where consts[i] = [t, size]: t is      *)
(* "call" (a vm.Call constant with its arity), "str", "re" or "other" -    *)
(* exactly what VM!WellFormed reads.                                       *)
(*                                                                         *)
(* MC_VM checks ShapeAbstracts: every step VM!Step takes, projected, is a  *)
(* ShapeNext step - the abstraction is sound for the value-level model.    *)
(***************************************************************************)
EXTENDS VM

Sh(ip, depth, scopes) == [ip |-> ip, depth |-> depth, scopes |-> scopes]

OpAt(p, ip)  == OpName(p.code[ip + 1])
ArgAt(p, ip) == p.code[ip + 2] + 256 * p.code[ip + 3]
Fall(p, ip)  == ip + (IF HasOperand(OpAt(p, ip)) THEN 3 ELSE 1)
CallSize(p, ip) == p.consts[ArgAt(p, ip) + 1].size

PushOne == {"OpPush", "OpFetch", "OpFetchNilSafe", "OpFetchMap", "OpTrue", "OpFalse", "OpNil", "OpLoad"}
KeepOne == {"OpNegate", "OpNot", "OpMatchesConst", "OpProperty", "OpPropertyNilSafe", "OpCast"}
TwoToOne == {"OpEqual", "OpEqualInt", "OpEqualString", "OpIn", "OpLess", "OpMore", "OpLessOrEqual", "OpMoreOrEqual",
             "OpAdd", "OpSubtract", "OpMultiply", "OpDivide", "OpModulo", "OpExponent", "OpRange", "OpMatches",
             "OpContains", "OpStartsWith", "OpEndsWith", "OpIndex"}
NeedsScope == {"OpStore", "OpLoad", "OpInc", "OpEnd"}

(* slots the instruction reads (fewer on the stack is an underflow) *)
Needs(p, ip) ==
  LET nm == OpAt(p, ip)
  IN CASE nm \in PushOne \cup {"OpJump", "OpJumpBackward", "OpInc", "OpBegin", "OpEnd"} -> 0
       [] nm \in KeepOne \cup {"OpPop", "OpStore", "OpLen", "OpJumpIfTrue", "OpJumpIfFalse", "OpArray", "OpMap"} -> 1
       [] nm \in TwoToOne \cup {"OpRot"} -> 2
       [] nm = "OpSlice" -> 3
       [] nm \in {"OpCall", "OpCallFast"} -> CallSize(p, ip)
       [] nm \in {"OpMethod", "OpMethodNilSafe"} -> CallSize(p, ip) + 1
       [] OTHER -> 0

(* the shapes one instruction may lead to *)
ShapeNext(p, s) ==
  LET nm == OpAt(p, s.ip)
      f  == Fall(p, s.ip)
      a  == ArgAt(p, s.ip)
      d  == s.depth
  IN IF nm = "unknown" \/ d < Needs(p, s.ip) \/ (nm \in NeedsScope /\ s.scopes < 1) THEN {}
     ELSE CASE nm \in PushOne \cup {"OpLen"}  -> {Sh(f, d + 1, s.scopes)}
            [] nm \in KeepOne \cup {"OpRot", "OpInc"} -> {Sh(f, d, s.scopes)}
            [] nm \in {"OpPop", "OpStore"}    -> {Sh(f, d - 1, s.scopes)}
            [] nm \in TwoToOne                -> {Sh(f, d - 1, s.scopes)}
            [] nm = "OpSlice"                 -> {Sh(f, d - 2, s.scopes)}
            [] nm = "OpJump"                  -> {Sh(f + a, d, s.scopes)}
            [] nm = "OpJumpBackward"          -> {Sh(f - a, d, s.scopes)}
            [] nm \in {"OpJumpIfTrue", "OpJumpIfFalse"} -> {Sh(f, d, s.scopes), Sh(f + a, d, s.scopes)}
            [] nm \in {"OpCall", "OpCallFast"} -> {Sh(f, d - CallSize(p, s.ip) + 1, s.scopes)}
            [] nm \in {"OpMethod", "OpMethodNilSafe"} -> {Sh(f, d - CallSize(p, s.ip), s.scopes)}
            \* the element count k is popped first, then k elements (2k for a map), and the collection is pushed
            [] nm = "OpArray"                 -> {Sh(f, d2, s.scopes) : d2 \in 1..d}
            [] nm = "OpMap"                   -> {Sh(f, d2, s.scopes) : d2 \in {x \in 1..d : (d - x) % 2 = 0}}
            [] nm = "OpBegin"                 -> {Sh(f, d, s.scopes + 1)}
            [] nm = "OpEnd"                   -> {Sh(f, d, s.scopes - 1)}

(* a run that completes leaves exactly its result and no open scope (Run then pops the result) *)
ShapeCleanEnd(p, s) == s.ip = Len(p.code) /\ s.scopes = 0 /\ s.depth = (IF Len(p.code) = 0 THEN 0 ELSE 1)

(* the projection of a state of VM.tla *)
ShapeOf(m) == Sh(m.ip, Len(m.stack), Len(m.scopes))

(* every step the value-level machine takes from s on is a shape step, and it underflows only where the shape *)
(* machine says the instruction needs more than the stack holds (checked by MC_VM!ShapeAbstracts)              *)
RECURSIVE ShapeRun(_, _, _, _)
ShapeRun(s, p, rho, fuel) ==
  IF s.status # "run" \/ fuel = 0 \/ s.ip >= Len(p.code) THEN TRUE
  ELSE LET s2 == Step(s, p, rho, {})
       IN /\ s2.status = "run" => ShapeOf(s2) \in ShapeNext(p, ShapeOf(s))
          /\ s2.status = "underflow" => (Len(s.stack) < Needs(p, s.ip) \/ OpAt(p, s.ip) \in NeedsScope)
          /\ ShapeRun(s2, p, rho, fuel - 1)
=============================================================================

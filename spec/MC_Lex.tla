------------------------------- MODULE MC_Lex -------------------------------
(***************************************************************************)
(* Lexical families (C12, C04).  Every family fixes a set of input texts;  *)
(* TLC runs the lexer machine (Lexer.tla) on each of them, checking        *)
(* LocInv, TokenLocInv, ValueInv and OrderInv in every state and, for the  *)
(* structured families, that the machine's outcome is the one the lexical  *)
(* reference (Lexical.tla) assigns (Agrees); each finished run is emitted  *)
(* as a case for the real lexer / parser.                                  *)
(*                                                                         *)
(*  strlit   Quote(v, q, style) for every value v up to a length over the  *)
(*           value alphabet, both quotes, every escape style               *)
(*  numlit   every spelling of the documented number forms up to a length  *)
(*  layout   every ordered pair of tokens of a pool covering all token     *)
(*           kinds, under every separator of a pool (multi-byte runes and  *)
(*           line breaks before the second token)                          *)
(*  all-*    every text up to a length over a class alphabet (the outcome  *)
(*           of the machine, not of the reference: conformance of the      *)
(*           mechanism and error containment)                              *)
(***************************************************************************)
EXTENDS Lexer, Json

CONSTANTS LexFamily, LexMaxLen, LexEmit

VARIABLE meta
mvars == <<input, lx, mode, meta>>

RECURSIVE AllSeqs(_, _)
AllSeqs(A, n) == IF n = 0 THEN {<<>>}
                 ELSE LET P == AllSeqs(A, n - 1) IN P \cup {Append(s, a) : s \in {x \in P : Len(x) = n - 1}, a \in A}

---------------------------------------------------------------------------
(* alphabets of the unstructured families *)
Alpha ==
  CASE LexFamily = "all-num"  -> {"0", "1", "9", "_", "x", "X", "e", "E", ".", "+", "-", "a", "f", "b", "o", " "}
    [] LexFamily = "all-str"  -> {DQ, SQ, BSL, "n", "x", "u", "0", "7", "a", LF, Sym("E9"), " ", Sym("U1F600"), Sym("CR")}
    [] LexFamily = "all-op"   -> {".", "?", ":", "=", "!", "&", "|", "*", "<", "a", "1", " ", LF, Sym("TAB")}
    [] LexFamily = "all-word" -> {"n", "o", "t", "i", " ", Sym("TAB"), LF, "(", "a", "r", "d", "_"}
    [] LexFamily = "all-misc" -> {"@", Sym("XFF"), Sym("U1F600"), Sym("E9"), "a", "1", " ", "(", DQ, "#", ",",
                                  Sym("NBSP"), "$", "}"}
    [] OTHER -> {}

---------------------------------------------------------------------------
(* strlit *)
ValAlpha == {"a", "Z", "0", " ", DQ, SQ, BSL, LF, Sym("CR"), Sym("TAB"), Sym("BEL"), Sym("NUL"), Sym("DEL"),
             Sym("E9"), Sym("U4E16"), Sym("U1F600")}
AllStyles == {"raw", "named", "hex", "HEX", "oct", "u4", "U8", "mix"}
StrInputs == {[src |-> Quote(v, q, st), m |-> [kind |-> "str", v |-> v, q |-> q, style |-> st]] :
                 v \in AllSeqs(ValAlpha, LexMaxLen), q \in {DQ, SQ}, st \in AllStyles}

(* numlit *)
Chars(str) == [i \in 1..Len(str) |-> SubSeq(str, i, i)]
DecAlpha == {"0", "1", "9", "_"}
HexAlpha == {"1", "e", "E", "f", "A", "b", "0", "_"}
DecSpellings == {s \in AllSeqs(DecAlpha, LexMaxLen) : Len(s) >= 1 /\ IsDigit(s[1])}
HexSpellings == {<<"0", p>> \o s : p \in {"x", "X"}, s \in {h \in AllSeqs(HexAlpha, LexMaxLen - 1) : Strip(h) # <<>>}}
IntParts  == {"", "0", "1", "12"}
FracParts == {"", "5", "05", "25"}
ExpParts  == {"", "e1", "E2", "e+1", "e-1", "E+12", "e0"}
(* the documented float forms: d.d  .d  d.  and the exponent forms *)
IsFloatForm(ip, fp, ep, dot) == /\ (ip # "" \/ fp # "")              \* some digits
                                /\ (dot \/ ep # "")                    \* a float, not an integer
                                /\ (fp # "" => dot)                    \* a fraction follows a point
                                /\ (ip = "" => (dot /\ fp # ""))       \* `.5`
FloatForms == {x \in IntParts \X FracParts \X ExpParts \X BOOLEAN : IsFloatForm(x[1], x[2], x[3], x[4])}
ExpOf(ep) == IF ep = "" THEN 0
             ELSE LET ds == Chars(ep)
                      dd == SelectSeq(ds, IsDigit)
                  IN (IF Len(ds) > 1 /\ ds[2] = "-" THEN -1 ELSE 1) * ValOf(dd, 10, 0)
(* the value is mant * 10^exp10 exactly *)
FloatInputs ==
  {[src |-> Chars(x[1]) \o (IF x[4] THEN <<".">> ELSE <<>>) \o Chars(x[2]) \o Chars(x[3]),
    m |-> [kind |-> "num", class |-> "float", mant |-> Chars(x[1]) \o Chars(x[2]),
           exp10 |-> ExpOf(x[3]) - Len(x[2])]] : x \in FloatForms}
IntMeta(s) == [kind |-> "num", class |-> NumClass(s), base |-> NumBase(s), digits |-> Canon(s), n |-> IntVal(s)]
NumInputs == {[src |-> s, m |-> IntMeta(s)] : s \in DecSpellings \cup HexSpellings} \cup FloatInputs

(* layout *)
Id(s)  == LTok("Identifier", Chars(s), Chars(s))
Op(s)  == LTok("Operator", Chars(s), Chars(s))
Br(s)  == LTok("Bracket", Chars(s), Chars(s))
Nm(s)  == LTok("Number", Chars(s), Chars(s))
TokPool ==
  {Id("a"), Id("_x1"), Id("$"), LTok("Identifier", <<Sym("E9"), "b">>, <<Sym("E9"), "b">>),
   LTok("Identifier", <<Sym("U4E16")>>, <<Sym("U4E16")>>),
   Op("in"), Op("or"), Op("and"), Op("not"), Op("matches"), Op("not in"),
   LTok("Operator", <<"n", "o", "t", LF, " ", "i", "n">>, Chars("not in")),       \* the two-word operator across a line break
   LTok("Operator", <<"n", "o", "t", Sym("TAB"), Sym("NBSP"), "i", "n">>, Chars("not in")),
   Nm("1"), Nm("0x1f"), Nm("1.5"), Nm(".5"), Nm("1_0"),
   LTok("String", <<SQ, "a", Sym("E9"), SQ>>, <<"a", Sym("E9")>>),
   LTok("String", <<DQ, Sym("U1F600"), BSL, "n", DQ>>, <<Sym("U1F600"), LF>>),
   Op("+"), Op("-"), Op("*"), Op("/"), Op("%"), Op("**"), Op("=="), Op("!="), Op("<="), Op(">="), Op("<"), Op(">"),
   Op("&&"), Op("||"), Op("!"), Op("?"), Op(":"), Op(","), Op("#"), Op("."), Op(".."), Op("?."),
   Br("("), Br(")"), Br("["), Br("]"), Br("{"), Br("}")}
SepPool == {<<" ">>, <<LF>>, <<Sym("TAB")>>, <<Sym("CR"), LF>>, <<" ", " ">>, <<" ", LF, " ", " ">>, <<LF, LF, Sym("TAB")>>,
            <<Sym("FF")>>, <<Sym("VT"), Sym("NBSP")>>}
IsSymOp(t) == t.k = "Operator" /\ ~IsAlpha(t.s[1])
(* may two tokens be written without a separator (conservative: only the clearly safe adjacencies) *)
SafeAdjacent(a, b) ==
  \/ a.k = "Bracket" \/ b.k = "Bracket"
  \/ (a.k \in {"Identifier", "String"} /\ IsSymOp(b) /\ b.s[1] \notin {".", "?"})
  \/ (IsSymOp(a) /\ a.s[Len(a.s)] \notin {".", "?"} /\ b.k \in {"Identifier", "String"})
  \/ (a.k = "String" /\ b.k = "String")
LayoutCase(a, b, pre, mid) ==
  LET lay == Layout(<<a, b>>, <<pre, mid, <<>>>>)
  IN [src |-> lay.src,
      m |-> [kind |-> "layout",
             toks |-> <<[k |-> a.k, v |-> a.v, line |-> lay.pos[1].line, col |-> lay.pos[1].col],
                        [k |-> b.k, v |-> b.v, line |-> lay.pos[2].line, col |-> lay.pos[2].col]>>]]
LayoutInputs ==
  {LayoutCase(x[1], x[2], x[3], x[4]) :
     x \in {y \in TokPool \X TokPool \X {<<>>, <<" ", LF>>} \X (SepPool \cup {<<>>}) :
              /\ (y[4] # <<>> \/ SafeAdjacent(y[1], y[2]))
              /\ ~(y[1] = Op("not") /\ y[2] = Op("in"))}}     \* `not` followed by `in` is the one token `not in`

(* bigvals: spelling schemes for magnitudes TLC cannot hold (up to 2^63 - 1, every finite  *)
(* float64).  The case is the scheme; the harness draws the values (extrema and seeded     *)
(* random ones), writes them in the scheme and expects the class named here and the value  *)
(* it drew.  (The machine runs on the scheme's sample spelling.)                            *)
Scheme(class, base, prefix, upper, group, fmt, sample) ==
  [src |-> Chars(sample),
   m |-> [kind |-> "scheme", class |-> class, base |-> base, prefix |-> prefix, upper |-> upper, group |-> group, fmt |-> fmt]]
SchemeInputs ==
  {Scheme("int", 10, "", "lower", 0, "", "1234567"), Scheme("int", 10, "", "lower", 3, "", "1_234_567"),
   Scheme("int", 16, "0x", "lower", 0, "", "0x1e2f"), Scheme("int", 16, "0x", "upper", 0, "", "0x1E2F"),
   Scheme("int", 16, "0X", "upper", 0, "", "0X1E2F"), Scheme("int", 16, "0X", "lower", 4, "", "0X1e_2f3b"),
   Scheme("int", 16, "0x", "mixed", 4, "", "0x1E_2f3B"),
   Scheme("float", 10, "", "lower", 0, "e", "1.5e+10"), Scheme("float", 10, "", "upper", 0, "E", "1.5E+10"),
   Scheme("float", 10, "", "lower", 0, "f", "15000000000.5"), Scheme("float", 10, "", "lower", 0, "g", "1.5e-07")}

(* numsuffix: a number spelling immediately followed by something else - a sign, a range, a letter, another *)
(* number: where the literal ends is decided by the machine (and must be decided alike by the real lexer)   *)
NumHeads == {"0xe", "0XE", "0x1e", "0x1E", "0xfe", "0xE1", "0x7ffffffffffffffe", "1e", "1e5", "1E5", "1.", "1.5", "1.5e", "0x", "7", "1_0", "0b1", "0e", ".5", "1e+", "2e-3"}
NumTails == {"+1", "-1", "+a", "-0xE", "..2", ".5", "e+1", "E-1", "_", "x1", " +1", "+", "-", ".", "..", "e", "[0]", ")"}
NumSuffixInputs == {[src |-> Chars(h \o t), m |-> [kind |-> "none"]] : h \in NumHeads, t \in NumTails}

Inputs ==
  CASE LexFamily = "strlit" -> StrInputs
    [] LexFamily = "numsuffix" -> NumSuffixInputs
    [] LexFamily = "bigvals" -> SchemeInputs
    [] LexFamily = "numlit" -> NumInputs
    [] LexFamily = "layout" -> LayoutInputs
    [] OTHER -> {[src |-> s, m |-> [kind |-> "none"]] : s \in AllSeqs(Alpha, LexMaxLen)}

---------------------------------------------------------------------------
Init == /\ \E c \in Inputs : input = c.src /\ meta = c.m
        /\ lx = L0 /\ mode = "root"
Next == LStep /\ UNCHANGED meta

(* the structured families: the machine's outcome is the reference's *)
NonEOF(ts) == SelectSeq(ts, LAMBDA t : t.k # "EOF")
Agrees ==
  mode = "done" =>
    CASE meta.kind = "str" ->
           (lx.err = "outside") \/
           (Outcome.ok /\ NonEOF(Outcome.toks) = <<[k |-> "String", v |-> meta.v, line |-> 1, col |-> 0]>>)
      [] meta.kind = "num" ->
           Outcome.ok /\ NonEOF(Outcome.toks) = <<[k |-> "Number", v |-> input, line |-> 1, col |-> 0]>>
      [] meta.kind = "layout" -> Outcome.ok /\ NonEOF(Outcome.toks) = meta.toks
      [] meta.kind = "scheme" -> Outcome.ok /\ NonEOF(Outcome.toks) = <<[k |-> "Number", v |-> input, line |-> 1, col |-> 0]>>
      [] OTHER -> TRUE

(* the reference decoding inverts the reference spelling *)
QuoteInverts == meta.kind = "str" => Unquote(input) = [ok |-> TRUE, v |-> meta.v]

Case == [fam |-> LexFamily, src |-> input, out |-> Outcome, meta |-> meta]
EmitCase == (mode = "done" /\ LexEmit = "cases" /\ lx.err # "outside") => PrintT(ToJson(Case))
=============================================================================

------------------------------- MODULE GenSyn -------------------------------
(***************************************************************************)
(* The untyped derivation machine: every syntax tree up to a node budget   *)
(* over a family's leaves and operators (C11, C13).  Like Gen.tla the tree *)
(* is built in postfix order on a stack, so every tree has exactly one     *)
(* derivation and the complete states are the distinct trees; unlike Gen   *)
(* no typing rule restricts the shapes: the parser does not look at types. *)
(***************************************************************************)
EXTENDS Grammar

CONSTANTS
  SLeaves,      \* set of trees usable as leaves
  SUnOps, SBinOps,
  SProps,       \* set of [name, ns]
  SMeths,       \* set of [name, ns, argc]
  SFuncs,       \* set of [name, argc]
  SBuiltins,    \* subset of BuiltinNames \ {"len"}
  SUseLen, SUseCond, SUseIdx, SUseElem,
  SSliceShapes, SArrLens, SMapLens,
  SMaxNodes, SMaxClosure

VARIABLES stk, n
svars == <<stk, n>>

SE(e) == [m |-> "e", e |-> e]
SOpen(name, x) == [m |-> "open", name |-> name, x |-> x]
IsE(i) == i >= 1 /\ i <= Len(stk) /\ stk[i].m = "e"
Depth == Cardinality({i \in 1..Len(stk) : stk[i].m = "open"})
NumE(s) == Cardinality({i \in 1..Len(s) : s[i].m = "e"})
(* a lower bound on the nodes still needed to close the stack into one tree *)
Need(s) == (NumE(s) \div 2) + (IF Len(s) > 0 /\ s[Len(s)].m = "open" THEN 1 ELSE 0)
           + (IF Len(s) = 0 THEN 1 ELSE 0)
Fits(s, k) == k + Need(s) <= SMaxNodes
Cut(k) == SubSeq(stk, 1, Len(stk) - k)
Top0(k) == stk[Len(stk) - k].e
AllE(k) == \A i \in 1..k : IsE(Len(stk) - k + i)
ArgsE(k) == [i \in 1..k |-> stk[Len(stk) - k + i].e]
Step(s) == Fits(s, n + 1) /\ stk' = s /\ n' = n + 1

SInit == stk = <<>> /\ n = 0
SLeaf == \E lf \in SLeaves : Step(Append(stk, SE(lf)))
SElem == SUseElem /\ Depth > 0 /\ Step(Append(stk, SE(NPtr)))
SUn   == IsE(Len(stk)) /\ \E op \in SUnOps : Step(Append(Cut(1), SE(NUn(op, Top0(0)))))
SBin  == AllE(2) /\ \E op \in SBinOps : Step(Append(Cut(2), SE(NBin(op, Top0(1), Top0(0)))))
SCond == SUseCond /\ AllE(3) /\ Step(Append(Cut(3), SE(NCond(Top0(2), Top0(1), Top0(0)))))
SProp == IsE(Len(stk)) /\ \E p \in SProps : Step(Append(Cut(1), SE(NProp(Top0(0), p.name, p.ns))))
SIdx  == SUseIdx /\ AllE(2) /\ Step(Append(Cut(2), SE(NIdx(Top0(1), Top0(0)))))
SSlice == \E sh \in SSliceShapes :
            CASE sh = "ft" -> AllE(3) /\ Step(Append(Cut(3), SE(NSlice(Top0(2), Top0(1), Top0(0)))))
              [] sh = "f"  -> AllE(2) /\ Step(Append(Cut(2), SE(NSlice(Top0(1), Top0(0), NNone))))
              [] sh = "t"  -> AllE(2) /\ Step(Append(Cut(2), SE(NSlice(Top0(1), NNone, Top0(0)))))
              [] sh = "n"  -> AllE(1) /\ Step(Append(Cut(1), SE(NSlice(Top0(0), NNone, NNone))))
SCall == \E f \in SFuncs : Len(stk) >= f.argc /\ AllE(f.argc)
                           /\ Step(Append(Cut(f.argc), SE(NCall(f.name, ArgsE(f.argc)))))
SMeth == \E mm \in SMeths : Len(stk) >= mm.argc + 1 /\ AllE(mm.argc + 1)
                            /\ Step(Append(Cut(mm.argc + 1), SE(NMeth(stk[Len(stk) - mm.argc].e, mm.name, ArgsE(mm.argc), mm.ns))))
SLen  == SUseLen /\ IsE(Len(stk)) /\ Step(Append(Cut(1), SE(NLen(Top0(0)))))
SOpenB == IsE(Len(stk)) /\ Depth < SMaxClosure /\ \E b \in SBuiltins : Step(Append(Cut(1), SOpen(b, Top0(0))))
SClose == /\ Len(stk) >= 2 /\ IsE(Len(stk)) /\ ~IsE(Len(stk) - 1)
          /\ LET o == stk[Len(stk) - 1]  s2 == Append(Cut(2), SE(NBi(o.name, o.x, Top0(0))))
             IN Fits(s2, n) /\ stk' = s2 /\ n' = n
SArr  == \E k \in SArrLens : Len(stk) >= k /\ AllE(k) /\ Step(Append(Cut(k), SE(NArr(ArgsE(k)))))
SKeys == <<"a", "b", "c">>
SMapL == \E k \in SMapLens : Len(stk) >= k /\ AllE(k) /\ Step(Append(Cut(k), SE(NMap(SubSeq(SKeys, 1, k), ArgsE(k)))))

SNext == \/ SLeaf \/ SElem \/ SUn \/ SBin \/ SCond \/ SProp \/ SIdx \/ SSlice
         \/ SCall \/ SMeth \/ SLen \/ SOpenB \/ SClose \/ SArr \/ SMapL

SComplete == Len(stk) = 1 /\ stk[1].m = "e"
STree == stk[1].e
=============================================================================

------------------------------ MODULE Resolve ------------------------------
(***************************************************************************)
(* Go's member resolution on struct types (C16): which field or method a   *)
(* name denotes on a value of a struct type with embedded structs.         *)
(*                                                                         *)
(* A shape is [members, method]:                                           *)
(*   members  sequence of [k |-> "field", name, ty]                        *)
(*                     or [k |-> "embed", ty (an inner type name), ptr]    *)
(*   method   "none" | "val" | "ptr": a method M() int declared on the     *)
(*            shape itself with a value or a pointer receiver              *)
(* Inner types (fixed, InnerTypes below) have the same form, so embedding  *)
(* nests to depth 3.                                                       *)
(*                                                                         *)
(* The rule (Go specification, "Selectors"): for a name, the candidates at *)
(* the shallowest depth at which the name occurs decide; exactly one       *)
(* candidate there means the name denotes it, several mean the selector is *)
(* illegal.  A method with a pointer receiver is in the method set of a    *)
(* value only when reached through an embedded pointer; a pointer to the   *)
(* struct has all of them.  Only exported names are visible to expr.       *)
(***************************************************************************)
EXTENDS Integers, Sequences, FiniteSets, TLC

Field(name, ty) == [k |-> "field", name |-> name, ty |-> ty]
Embed(ty, ptr)  == [k |-> "embed", ty |-> ty, ptr |-> ptr]
Shape(ms, m)    == [members |-> ms, method |-> m, ret |-> IF m = "ptr" THEN 101 ELSE 100]   \* what the shape's own M() returns
InnerShape(ms, m, ret) == [members |-> ms, method |-> m, ret |-> ret]

InnerTypes ==
  [I1 |-> InnerShape(<<Field("A", "int")>>, "none", 0),
   I2 |-> InnerShape(<<Field("A", "string"), Field("B", "int")>>, "none", 0),
   I3 |-> InnerShape(<<Field("c", "int")>>, "val", 3),
   I4 |-> InnerShape(<<Field("B", "int")>>, "ptr", 4),
   I5 |-> InnerShape(<<Field("M", "func")>>, "none", 55),        \* a function-valued field named like the method; it returns 55
   u1 |-> InnerShape(<<Field("Q", "int")>>, "none", 0),          \* a type whose NAME is unexported: its field Q is promoted, the embedded field `u1` is not visible
   D  |-> InnerShape(<<Embed("I1", FALSE), Field("B", "string")>>, "none", 0),
   E  |-> InnerShape(<<Embed("I4", TRUE), Field("c", "int")>>, "none", 0)]

IsExported(name) == SubSeq(name, 1, 1) \in {"A", "B", "C", "D", "E", "I", "M", "N", "Q", "X", "Z"}

(* candidates for `name` in shape s: [depth, kind, ty, addr, path] (addr: needs an addressable   *)
(* receiver; path: the member indices leading to it, so that two candidates are never confused) *)
RECURSIVE Cands(_, _, _)
Cands(s, name, depth) ==
  LET own == {[depth |-> depth, kind |-> "field", ty |-> s.members[i].ty, addr |-> FALSE, path |-> <<i>>, ret |-> s.ret] :
                i \in {j \in 1..Len(s.members) : s.members[j].k = "field" /\ s.members[j].name = name}}
             \cup {[depth |-> depth, kind |-> "field", ty |-> s.members[i].ty, addr |-> FALSE, path |-> <<i>>, ret |-> 0] :      \* the embedded field itself
                i \in {j \in 1..Len(s.members) : s.members[j].k = "embed" /\ s.members[j].ty = name}}
             \cup (IF name = "M" /\ s.method # "none"
                   THEN {[depth |-> depth, kind |-> "method", ty |-> "int", addr |-> s.method = "ptr", path |-> <<0>>, ret |-> s.ret]} ELSE {})
      deeper == UNION {LET m == s.members[i]
                       IN {[c EXCEPT !.addr = (IF m.ptr THEN FALSE ELSE c.addr), !.path = <<i>> \o c.path] :
                             c \in Cands(InnerTypes[m.ty], name, depth + 1)} :
                       i \in {j \in 1..Len(s.members) : s.members[j].k = "embed"}}
  IN own \cup deeper

(* what `name` denotes on a value of shape s; LookupIn over a chosen candidate set *)
LookupIn(cs) ==
  IF cs = {} THEN [res |-> "none"]
     ELSE LET d == CHOOSE x \in {c.depth : c \in cs} : \A y \in {c.depth : c \in cs} : x <= y
              top == {c \in cs : c.depth = d}
          IN IF Cardinality(top) > 1 THEN [res |-> "ambiguous"]
             ELSE LET c == CHOOSE x \in top : TRUE
                  IN [res |-> c.kind, ty |-> c.ty, addr |-> c.addr, ret |-> c.ret]     \* ret: what calling it yields (methods, func fields)

Lookup(s, name) == LookupIn(Cands(s, name, 0))
(* the same rule blind to methods: what reflect.Type.FieldByName answers (it differs from the selector *)
(* rule exactly where a method shadows, or collides with, a field of the same name)                 *)
LookupField(s, name) == LookupIn({c \in Cands(s, name, 0) : c.kind = "field"})

(* is the name usable on an environment of shape s passed by value / by pointer? *)
Usable(s, name, byPtr) ==
  LET r == Lookup(s, name)
  IN /\ IsExported(name)
     /\ r.res \in {"field", "method"}
     /\ (r.res = "method" => (byPtr \/ ~r.addr))

(* Map environments.  A map shape is [named, elem, method]: a map[string]E, E = "any" (interface{}) or "int", *)
(* declared as a named type or not; a named type may have a method M() int (value receiver; it returns 100). *)
(* The populated value has the key "A" (the integer 1) and, when E = "any", the key "G" (a function that     *)
(* returns 7).  A key that is present is accepted as an identifier, resolves to its value and has the type   *)
(* the checker derives from the sample value (E = "any") or E itself; a function-valued key and the method   *)
(* are callable.  Nothing is claimed about absent names.                                                     *)
MapShapes == {[named |-> nm, elem |-> e, method |-> m] : nm \in BOOLEAN, e \in {"any", "int"}, m \in {"none", "val"}}
LegalMapShape(s) == s.method = "val" => s.named          \* only a named type has methods
MapNames == {"A", "G", "M"}
MapLookup(s, name) ==
  CASE name = "A" -> [res |-> "key", ty |-> "int", val |-> 1, call |-> 0]
    [] name = "G" /\ s.elem = "any" -> [res |-> "key", ty |-> "func", val |-> 0, call |-> 7]
    [] name = "M" /\ s.method = "val" -> [res |-> "method", ty |-> "func", val |-> 0, call |-> 100]
    [] OTHER -> [res |-> "none", ty |-> "", val |-> 0, call |-> 0]

(* a legal Go type: no two members with the same field name at the top level *)
MemberName(m) == IF m.k = "field" THEN m.name ELSE m.ty
Legal(ms) == \A i, j \in 1..Len(ms) : i # j => MemberName(ms[i]) # MemberName(ms[j])
=============================================================================

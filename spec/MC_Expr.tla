------------------------------ MODULE MC_Expr ------------------------------
(***************************************************************************)
(* Families of expressions for the evaluation properties (C01, C15, C18,   *)
(* C05, C06, C09 ...): instantiations of the derivation machine Gen, the   *)
(* environment values each member ranges over, and the emission of cases:  *)
(* for every complete expression and every environment assignment of the   *)
(* members it mentions, the outcome the language definition assigns.       *)
(*                                                                         *)
(* The configuration file (written by bin/check) picks Family, MaxNodes,   *)
(* MaxClosure and EmitMode.                                                *)
(***************************************************************************)
EXTENDS Gen, Json, Walk

CONSTANTS Family, EmitMode

L(e, ty) == [e |-> e, ty |-> ty]
Mem(name) == L(NId(name), MemberType[name])
Ints(S) == {L(NInt(i), "int") : i \in S}
Strs(S) == {L(NStr(s), "string") : s \in S}
Neg1 == L(NUn("-", NInt(1)), "int")

(* Family "oversize" (C05): BigB / BigI are sub-expressions whose code is      *)
(* longer than the small-scope operand range (12 pushes = 36 bytes > 32) and  *)
(* whose value does not depend on the literal's length.  The harness inflates *)
(* the 12-element literal to 23000 elements (69 KB of code > 65535), so every *)
(* jump the small-scope model finds overflowing overflows for real.           *)
BigArr == NArr([i \in 1..12 |-> NInt(0)])
BigB == L(NBin(">", NLen(BigArr), NInt(0)), "bool")
BigI == L(NBin("*", NLen(BigArr), NInt(0)), "int")

(* Family "ovconst" (C05): BigD is a literal with more distinct constants than a  *)
(* small constant pool holds; the harness inflates it to 65534..65536 distinct   *)
(* integers, so that the constants created after it - the folded ranges of the    *)
(* optimizer are not hashable and take the unchecked path if there is one - get   *)
(* indices around the 16-bit limit.  The value does not depend on its length.     *)
(* (a string first, so that the optimizer does not fold the literal; the integers  *)
(* 2..12 include the literal's own length and every constant used after it)       *)
BigD == NArr([i \in 1..12 |-> IF i = 1 THEN NStr("a") ELSE NInt(i)])
BigDB == L(NBin(">", NLen(BigD), NInt(2)), "bool")

(* values each environment member ranges over *)
ObjA == Obj("Obj", [N |-> IntV(3), Name |-> Str("ab"), Next |-> PtrNil("Obj"), Tags |-> Arr("string", <<Str("x"), Str("y")>>)])
ObjB == Obj("Obj", [N |-> IntV(-1), Name |-> Str(""), Next |-> PtrTo("Obj", ObjA), Tags |-> Arr("nil[]string", <<>>)])
IntArr(s) == Arr("int", [i \in 1..Len(s) |-> IntV(s[i])])
StrArr(s) == Arr("string", [i \in 1..Len(s) |-> Str(s[i])])

EnvVals ==
  [I |-> {IntV(0), IntV(2), IntV(-3)}, J |-> {IntV(1), IntV(5)}, K |-> {IntV(97), IntV(1)},
   I8 |-> {IntK("int8", -128), IntK("int8", 7)}, I16 |-> {IntK("int16", 300)}, I32 |-> {IntK("int32", -70000)},
   I64 |-> {IntK("int64", 2), IntK("int64", -9)},
   U |-> {IntK("uint", 0), IntK("uint", 300)}, U8 |-> {IntK("uint8", 44), IntK("uint8", 255)},
   U16 |-> {IntK("uint16", 65535)}, U32 |-> {IntK("uint32", 70000)}, U64 |-> {IntK("uint64", 3)},
   F32 |-> {Flt("float32", 3, 1)}, F |-> {F64(5, 1), F64(-1, 2), F64(2, 0)}, G |-> {F64(0, 0), F64(1, 1)},
   B |-> {Bool(TRUE), Bool(FALSE)}, C |-> {Bool(TRUE), Bool(FALSE)},
   S |-> {Str(""), Str("abc"), Str("ab"), Str("a{|")}, T |-> {Str("b"), Str("abc")},     \* "a{|" is "a" followed by a two-byte rune
   Xs |-> {Arr("nil[]int", <<>>), IntArr(<<1, 2, 3>>), IntArr(<<-2, 2>>)},
   Ys |-> {IntArr(<<2>>), IntArr(<<1, 2, 3>>)},
   Big |-> {IntArr([i \in 1..40 |-> 41 - i])},      \* longer than any small-collection threshold, not sorted
   Fs |-> {Arr("float64", <<F64(1, 1), F64(2, 0)>>)},
   Ss |-> {StrArr(<<"a", "abc">>), Arr("nil[]string", <<>>)},
   Anys |-> {Arr("any", <<IntV(1), Str("a"), Nil>>), Arr("any", <<Bool(TRUE)>>)},
   Any |-> {Nil, IntV(2), Str("abc"), F64(3, 1), Bool(TRUE), IntArr(<<1, 2>>)},
   M |-> {MapV("int", <<"a", "b">>, <<IntV(1), IntV(2)>>), MapV("nil:int", <<>>, <<>>)},
   MA |-> {MapV("any", <<"a", "k">>, <<IntV(1), Str("v")>>)},
   O |-> {ObjA, ObjB}, P |-> {PtrNil("Obj"), PtrTo("Obj", ObjA), PtrTo("Obj", ObjB)},
   Os |-> {Arr("Obj", <<ObjA, ObjB>>), Arr("nil[]Obj", <<>>)},
   Ps |-> {Arr("*Obj", <<PtrTo("Obj", ObjA), PtrNil("Obj")>>)}]

Extend(f, m, v) == [x \in (DOMAIN f) \cup {m} |-> IF x = m THEN v ELSE f[x]]
RECURSIVE Assignments(_)
Assignments(ms) ==
  IF ms = {} THEN {<<>>}
  ELSE LET m == CHOOSE x \in ms : TRUE
       IN {Extend(f, m, v) : f \in Assignments(ms \ {m}), v \in EnvVals[m]}

---------------------------------------------------------------------------
(* Families *)

CmpOps == {"==", "!=", "<", "<=", ">", ">="}
AllBuiltins == {"all", "none", "any", "one", "count", "filter", "map"}
Pr(name, ns) == [name |-> name, ns |-> ns]

F_Leaves ==
  CASE Family = "arith"  -> Ints({0, 1, 2, 7}) \cup {L(NFloat("0.5", 1, 1), "float64"), L(NFloat("2.0", 2, 0), "float64"),
                              Mem("I"), Mem("J"), Mem("F"), Mem("I64"), Mem("U8"), Mem("F32"), Mem("Any")}
    [] Family = "logic"  -> Ints({1, 2}) \cup {L(NBool(TRUE), "bool"), L(NBool(FALSE), "bool"), L(NNil, "nil"),
                              Mem("B"), Mem("C"), Mem("I"), Mem("Any"), Mem("S"), Mem("P"), Mem("I64"), Mem("G")}
    [] Family = "string" -> Strs({"a", "abc", "^ab", "c$", "("}) \cup {Mem("S"), Mem("T"), Mem("Any")} \cup Ints({0, 1, 5})
    [] Family = "coll"   -> Ints({0, 1, 2, 4}) \cup Strs({"a", "z", "N"}) \cup {Neg1, L(NNil, "nil"),
                              Mem("Xs"), Mem("Ss"), Mem("Anys"), Mem("M"), Mem("MA"), Mem("S"), Mem("I"), Mem("O"), Mem("P"), Mem("Any"), Mem("F")}
    [] Family = "access" -> Ints({1, 2}) \cup Strs({"a"}) \cup {L(NNil, "nil"), Mem("O"), Mem("P"), Mem("Os"), Mem("Ps"), Mem("I"), Mem("S"), Mem("Xs"), Mem("Anys"), Mem("F")}
    [] Family = "builtin" -> Ints({0, 1, 2}) \cup Strs({"a"}) \cup {Mem("Xs"), Mem("Ys"), Mem("I"), Mem("Os"), Mem("Ss"),
                              L(NBool(TRUE), "bool"), L(NBool(FALSE), "bool")}
    [] Family = "nest"   -> Ints({1}) \cup {Mem("Xs"), Mem("Ys"), Mem("Os")}      \* closures nested three deep; a collection reached through the outer element
    [] Family = "mixed"  -> Ints({0, 1, 3}) \cup {L(NBool(TRUE), "bool"), L(NStr("ab"), "string"), L(NNil, "nil"), L(NFloat("1.5", 3, 1), "float64"),
                              Mem("I"), Mem("B"), Mem("S"), Mem("Xs"), Mem("F"), Mem("O"), Mem("P"), Mem("M"), Mem("Any")}
    [] Family = "alloc"  -> Ints({0, 1, 3}) \cup {Mem("I"), Mem("J"), Mem("Xs")}
    [] Family = "calls"  -> Ints({1}) \cup {L(NNil, "nil"), Mem("I"), Mem("P")}
    [] Family = "inlit"  -> Ints({1, 2, 300}) \cup Strs({"a"}) \cup {Mem("I64"), Mem("F"), Mem("K"), Mem("Big"), Mem("U8")}
    [] Family = "ovlt"   -> {Mem("I"), Mem("F")}             \* several overloaded occurrences of different operand types
    [] Family = "ovlarg" -> Ints({1}) \cup {Mem("I"), Mem("J"), Mem("F")}   \* overloaded occurrences inside arguments of every parameter type
    [] Family = "nest2"  -> Ints({1}) \cup Strs({"a"}) \cup {Mem("Ss"), Mem("Xs"), L(NBool(TRUE), "bool")}
    \* membership of an allocating integer in a range with run-time bounds (each operand is evaluated, and charged, once)
    [] Family = "allocin" -> {Mem("I"), Mem("J")}
    \* a literal range larger than the default budget, in positions that are evaluated or not
    [] Family = "bigrng" -> Ints({0}) \cup {Mem("B"), L(NBin("..", NInt(1), NInt(2000000)), "[]int")}
    \* a mapper applied to the result of a mapper, with a builtin of its own inside (each `#` is the element of its own collection)
    [] Family = "mapmap" -> Ints({1}) \cup {Mem("Xs"), Mem("Ys")}
    \* a pattern that depends on the element of the enclosing closure
    [] Family = "pat"    -> Strs({"a"}) \cup {Mem("S"), Mem("Ss")}
    \* membership in a literal range - ascending, one element, empty - of an operand that may fail
    [] Family = "inrng"  -> Ints({1, 2}) \cup {Mem("Xs"), Mem("P")}
    \* operations on an operand whose type is known at run time only
    [] Family = "dyn"    -> Ints({0, 1}) \cup Strs({"a"}) \cup {Mem("Any"), Mem("Xs"), L(NBool(TRUE), "bool")}   \* nested closures over different element types
    [] Family = "cexpr"  -> Ints({1}) \cup Strs({"1", "a"}) \cup {L(NFloat("1.0", 1, 0), "float64"), Mem("I")}
    [] Family = "rng"    -> Ints({1, 3}) \cup {Mem("I"), Mem("J")}
    [] Family = "order"  -> Ints({0, 1, 2}) \cup {Mem("Xs"), Mem("I"), Mem("F"), Mem("S"), Mem("I64")}
    [] Family = "laws"   -> Ints({0, 1, 2, 3}) \cup {Neg1, Mem("Xs"), Mem("Ys"), Mem("I"), Mem("J"), Mem("S"), Mem("Os"), Mem("Anys"), Mem("U64"),
                              L(NBool(TRUE), "bool"), L(NBool(FALSE), "bool")}
    [] Family = "ovl"    -> Ints({1, 2}) \cup {L(NFloat("0.5", 1, 1), "float64"), Mem("B"), Mem("I"), Mem("J"), Mem("F"), Mem("Any"), Mem("Xs"), Mem("Anys"), Mem("S"), Mem("I64")}
    [] Family = "ovlb"   -> Ints({1}) \cup {Mem("B"), Mem("I"), Mem("Xs")}   \* `+` in branches, bounds and sliced operands
    [] Family = "promo"  -> {Mem(m) : m \in {"I", "I8", "I16", "I32", "I64", "U", "U8", "U16", "U32", "U64", "F32", "F"}}
    [] Family = "oversize" -> Ints({7}) \cup {BigB, BigI, Mem("B"), Mem("I"), Mem("Xs"), Mem("P")}
    [] Family = "ovconst" -> Ints({2, 3, 4}) \cup {BigDB}

F_UnOps ==
  CASE Family = "arith" -> {"-", "+"}
    [] Family = "logic" -> {"not", "!"}
    [] Family = "mixed" -> {"-", "not"}
    [] Family = "builtin" -> {"not"}
    [] Family = "dyn" -> {"-", "not"}
    [] OTHER -> {}

F_BinOps ==
  CASE Family = "arith"  -> {"+", "-", "*", "/", "%", "**"} \cup CmpOps
    [] Family = "logic"  -> {"and", "or", "&&", "||", "==", "!=", "<"}
    [] Family = "string" -> {"+", "contains", "startsWith", "endsWith", "matches", "<", ">=", "==", "!="}
    [] Family = "coll"   -> {"in", "not in", "..", "=="}
    [] Family = "access" -> {"+", "=="}
    [] Family = "builtin" -> {">", "==", "+", "and", "%", ".."}
    [] Family = "mixed"  -> {"+", "*", "/", "==", "<", "and", "or", "in", ".."}
    [] Family = "alloc"  -> {"..", "+", ">"}
    [] Family = "allocin" -> {"..", "in", "not in"}
    [] Family = "calls"  -> {}
    [] Family = "inlit"  -> {"in", "not in"}
    [] Family = "cexpr"  -> {"+"}
    [] Family = "rng"    -> {".."}
    [] Family = "nest"   -> {">"}
    [] Family = "ovlt"   -> {"+", "*"}
    [] Family = "ovlarg" -> {"+"}
    [] Family = "nest2"  -> {">", "==", "and"}
    [] Family = "dyn"    -> {"+", "==", "<", "and", "in", "matches", ".."}
    [] Family = "pat"    -> {"matches"}
    [] Family = "mapmap" -> {">"}
    [] Family = "bigrng" -> {">", "or"}
    [] Family = "inrng"  -> {"in", "not in", ".."}
    [] Family = "order"  -> {"in", "not in", ".."}
    [] Family = "laws"   -> {">", "==", "%", "/", "and", "in", ".."}
    [] Family = "ovl"    -> {"+", "*", "==", ">"}
    [] Family = "ovlb"   -> {"+"}
    [] Family = "promo"  -> {"+", "-", "*", "/", "%", "**"} \cup CmpOps
    [] Family = "oversize" -> {"and", "or", "==", "+"}
    [] Family = "ovconst" -> {".."}

F_Props ==
  CASE Family = "access" -> {Pr("N", FALSE), Pr("N", TRUE), Pr("Next", FALSE), Pr("Next", TRUE), Pr("Name", FALSE), Pr("Tags", TRUE)}
    [] Family = "builtin" -> {Pr("N", FALSE)}
    [] Family = "mixed" -> {Pr("N", FALSE), Pr("Next", TRUE), Pr("a", FALSE)}
    [] Family = "coll" -> {Pr("a", FALSE), Pr("z", FALSE)}
    [] Family = "oversize" -> {Pr("N", TRUE)}
    [] Family = "calls" -> {Pr("Next", TRUE)}
    [] Family = "laws" -> {Pr("N", FALSE)}
    [] Family = "inrng" -> {Pr("N", FALSE)}
    [] Family = "nest" -> {Pr("Tags", FALSE)}
    [] OTHER -> {}

F_Meths ==
  CASE Family = "access" -> {Pr("GetN", FALSE), Pr("Bump", FALSE), Pr("GetN", TRUE)}
    [] Family = "calls" -> {Pr("Bump", TRUE), Pr("GetN", TRUE)}
    [] OTHER -> {}

F_Funcs ==
  CASE Family = "access" -> {"Id", "Add", "IsPos", "Cat", "Half", "Sum", "Len3", "AnyId", "Boom", "NilFn", "Twice", "I8Id", "Var"}
    [] Family = "arith"  -> {"Id", "Half"}
    [] Family = "logic"  -> {"IsPos", "Boom"}
    [] Family = "builtin" -> {"Id", "IsPos", "Sum"}
    [] Family = "mixed"  -> {"Id", "Add", "Half"}
    [] Family = "order"  -> {"Id", "Twice"}
    [] Family = "ovl"    -> {"Id", "Half"}
    [] Family = "ovlarg" -> {"Id", "Half", "AnyId", "Var", "Pair"}
    [] Family = "calls"  -> {"Pair", "Tup", "VarI"}
    [] Family = "cexpr"  -> {"AnyId", "Var", "Cat", "Id"}
    [] Family = "rng"    -> {"Rev", "Sum"}
    [] OTHER -> {}

F_Builtins ==
  CASE Family = "builtin" -> AllBuiltins
    [] Family = "mixed" -> {"filter", "any", "map", "count"}
    [] Family = "alloc" -> {"map", "filter", "count"}
    [] Family = "oversize" -> {"all", "filter", "map", "count"}
    [] Family = "laws" -> {"all", "any"}
    [] Family = "nest" -> {"all", "any", "one", "count", "map"}
    [] Family = "nest2" -> {"all", "any"}
    [] Family = "dyn" -> AllBuiltins
    [] Family = "pat" -> {"filter", "count", "all", "map"}
    [] Family = "mapmap" -> {"map", "count"}
    [] Family = "ovl" -> {"map", "filter", "all"}
    [] OTHER -> {}

F_UseLen  == Family \in {"string", "coll", "builtin", "mixed", "alloc", "oversize", "inlit", "rng", "nest", "dyn", "bigrng", "allocin"}
F_AnyColl == Family = "dyn"
F_UseCond == Family \in {"logic", "mixed", "builtin", "oversize", "ovl", "ovlb", "bigrng"}
F_UseIdx  == Family \in {"coll", "access", "string", "mixed", "builtin", "ovl", "calls", "rng", "dyn", "inrng"}
F_SliceShapes == CASE Family \in {"coll", "string"} -> {"ft", "f", "t", "n"} [] Family = "mixed" -> {"f", "ft"}
                   [] Family = "laws" -> {"f"} [] Family = "ovl" -> {"f"} [] Family = "ovlb" -> {"f", "t"}
                   [] Family = "order" -> {"ft", "f", "t"} [] Family = "dyn" -> {"f", "ft"} [] OTHER -> {}
F_ArrLens == CASE Family \in {"coll", "mixed", "alloc"} -> {0, 1, 2} [] Family \in {"ovl", "ovlb"} -> {1} [] Family \in {"builtin", "calls"} -> {2}
               [] Family = "cexpr" -> {1, 2}
               [] Family = "inlit" -> {1, 3} [] Family = "ovconst" -> {3} [] OTHER -> {}
F_MapLens == CASE Family = "coll" -> {0, 1, 2} [] Family \in {"mixed", "alloc", "ovl"} -> {1} [] OTHER -> {}
F_ElemLeaves == Family \in {"builtin", "mixed", "alloc", "oversize", "laws", "ovl", "nest", "nest2", "dyn", "pat", "mapmap"}
F_OrderGuard == Family # "order"

(* Constructs whose outcome on the pinned tree is a catalogued deviation     *)
(* (DESIGN.md appendix C) are left to the dedicated families that carry the  *)
(* deviation's prediction ("order", "alloc"); elsewhere both operands must   *)
(* have kinds on which the reference rank and the implemented rank agree,    *)
(* sequences are compared only with sequences of the same Go type and are    *)
(* never the left operand of `in` (equality of sequences of different Go     *)
(* types is undocumented: Dev_DeepEqualSequences), `in`                      *)
(* takes no range on the right (inRange rewrite), and no slice has calls in  *)
(* both bounds.                                                              *)
RankAgree(a, b) == (a \in NumKinds /\ b \in NumKinds) => Higher(a, b, {}) = Higher(a, b, {"Dev_RankIntBelowInt8"})
F_Guard(op, l, r, s) ==
  /\ (Family # "promo" => RankAgree(l.ty, r.ty))
  /\ (op \in {"==", "!="} /\ (IsSliceT(l.ty) \/ IsSliceT(r.ty) \/ IsMapTy(l.ty) \/ IsMapTy(r.ty))
        => (r.e.k = "nil" \/ l.e.k = "nil" \/ (l.e.k = "id" /\ r.e.k = "id" /\ l.ty = r.ty)))
  /\ (op \in {"==", "!="} => ~(l.ty = "any" /\ (IsSliceT(r.ty) \/ IsMapTy(r.ty))) /\ ~(r.ty = "any" /\ (IsSliceT(l.ty) \/ IsMapTy(l.ty))))
  /\ (op \in {"in", "not in"} /\ Family \notin {"order", "laws", "inrng", "allocin"} => r.e.k # "bin")
  /\ (op \in {"in", "not in"} /\ Family = "allocin" => (l.ty = "int" /\ l.e.k = "len" /\ r.e.k = "bin" /\ r.e.op = ".."))
  /\ (op = "in" /\ Family = "laws" => (l.ty \in {"int", "uint64"} /\ r.e.k = "bin"))
  /\ (op \in {"in", "not in"} /\ Family = "inrng" => (l.ty = "int" /\ r.e.k = "bin" /\ r.e.op = ".."))
  /\ (op = ".." /\ Family = "inrng" => (l.e.k = "int" /\ r.e.k = "int"))
  /\ (op \in {"in", "not in"} => /\ ~IsSliceT(l.ty) /\ ~IsMapTy(l.ty)     \* no sequence/map looked up in a collection,
                                 /\ (l.ty = "any" => r.e.k = "id"))    \* whatever form the collection takes
  /\ (op = ".." => l.ty # "any" /\ r.ty # "any")
  \* family rng: a range handed to a function has a run-time bound (a constant range is folded into the program)
  /\ (op = ".." /\ Family = "rng" => (l.e.k = "id" \/ r.e.k = "id"))

---------------------------------------------------------------------------
Init == GInit
Next == GNext
Spec == Init /\ [][Next]_gvars

(* deviations of the pinned implementation (DESIGN.md appendix C) that can   *)
(* show in this family: for each run the outcome under each of them is       *)
(* emitted next to the reference outcome when the two differ, so that a      *)
(* failing real execution is attributed to a known finding mechanically.     *)
F_Devs == CASE Family \in {"coll", "mixed"} -> {"Dev_InArrayStringUntyped", "Dev_SliceToBeforeFrom"}
            [] Family \in {"ovl", "dyn"} -> {"Dev_BuiltinOverString", "Dev_InArrayStringUntyped", "Dev_SliceToBeforeFrom"}
            [] Family = "inlit" -> {"Dev_InArrayStringUntyped"}
            [] Family = "string" -> {"Dev_SliceToBeforeFrom"}
            [] Family = "order" -> {"Dev_SliceToBeforeFrom", "Dev_InRangeRewrite"}
            [] Family \in {"alloc", "allocin"} -> {"Dev_RangeSizeSigned"}
            [] Family \in {"laws", "inrng"} -> {"Dev_InRangeRewrite"}
            [] Family \in {"access", "promo"} -> {"Dev_RankIntBelowInt8"}   \* any-typed operands: int8 result of I8Id with an int
            [] OTHER -> {}

(* memory budgets each run is repeated under (C06); 0 stands for the default *)
F_Budgets == CASE Family \in {"alloc", "allocin"} -> 1..7 [] OTHER -> {0}

RunOf(t, asg, b) ==
  LET rho == EnvOf(asg)
      lim == IF b = 0 THEN DefaultBudget ELSE b
      exp == Outcome(t, rho, lim, {})
      dvs == {d \in F_Devs : Outcome(t, rho, lim, {d}) # exp}
      \* C03: the value under the result directives AsInt64 / AsFloat64 (the Go conversion)
      cast(k) == IF exp.ok /\ IsNum(exp.v) THEN Conv(exp.v, k) ELSE Nil
  IN [env |-> asg, budget |-> lim, exp |-> exp, dev |-> [d \in dvs |-> Outcome(t, rho, lim, {d})],
      i64 |-> cast("int64"), f64 |-> cast("float64")]

(* (a run on which a catalogued deviation changes the outcome into something the value universe cannot express -  *)
(* a quotient that is not a dyadic rational, say - could not be attributed either way: such runs are left out)     *)
Runs(t) ==
  LET rs == {RunOf(t, asg, b) : asg \in Assignments(Mentions(t)), b \in F_Budgets}
  IN {r \in rs : /\ (r.exp.ok \/ r.exp.c # "outside")
                  /\ \A d \in DOMAIN r.dev : r.dev[d].ok \/ r.dev[d].c # "outside"}

(* constructs at which the pinned checker's static type is known to differ from *)
(* what is built at run time (catalogued deviations, C03): named so that a       *)
(* failing execution can be attributed to the finding it belongs to              *)
RECURSIVE HasCondNil(_), HasMapFilter(_), HasLitArray(_)
HasCondNil(t) == (t.k = "cond" /\ (t.a.k = "nil" \/ t.b.k = "nil")) \/ \E i \in 1..Len(Kids(t)) : HasCondNil(Kids(t)[i])
HasMapFilter(t) == (t.k = "bi" /\ t.name \in {"map", "filter"}) \/ \E i \in 1..Len(Kids(t)) : HasMapFilter(Kids(t)[i])
HasLitArray(t) == t.k = "arr" \/ (t.k = "bin" /\ t.op = "..") \/ \E i \in 1..Len(Kids(t)) : HasLitArray(Kids(t)[i])
RECURSIVE HasNilSafe(_)
HasNilSafe(t) == (t.k \in {"prop", "meth"} /\ t.ns) \/ \E i \in 1..Len(Kids(t)) : HasNilSafe(Kids(t)[i])
(* ("nil-safe-step": a nil-safe step yields nil on a nil receiver by definition, so *)
(* nil inhabits the static type of such an expression: not a deviation)            *)
CaseTags(t) ==
  (IF HasCondNil(t) THEN {"cond-nil-branch"} ELSE {})
  \cup (IF HasNilSafe(t) THEN {"nil-safe-step"} ELSE {})
  \cup (IF HasMapFilter(t) THEN {"map-filter-result"} ELSE {})
  \cup (IF HasLitArray(t) THEN {"literal-array"} ELSE {})

(* C14: for `A op B` over two numeric members, the kind both operands are converted to (the higher rank), *)
(* by the reference rank and by the rank of the pinned implementation                                     *)
PromoRule(t) ==
  IF t.k = "bin" /\ t.l.k = "id" /\ t.r.k = "id" /\ MemberType[t.l.name] \in NumKinds /\ MemberType[t.r.name] \in NumKinds
  THEN [a |-> MemberType[t.l.name], b |-> MemberType[t.r.name], op |-> t.op,
        k |-> Higher(MemberType[t.l.name], MemberType[t.r.name], {}),
        kdev |-> Higher(MemberType[t.l.name], MemberType[t.r.name], {"Dev_RankIntBelowInt8"})]
  ELSE [a |-> "", b |-> "", op |-> "", k |-> "", kdev |-> ""]

Case == [src |-> Src(Tree), ty |-> TreeTy, n |-> n, typed |-> SoundScope(Tree), tags |-> CaseTags(Tree), promo |-> PromoRule(Tree), cdz |-> HasConstDivZero(Tree), cbp |-> HasConstBadPattern(Tree), runs |-> Runs(Tree)]

(* C18: the defining identities of the collection builtins, of membership in *)
(* an integer range and of slicing.  A complete tree of one of the root      *)
(* shapes below yields the pairs (law, left, right) that must evaluate alike *)
(* for every environment: both fail, or both succeed with equal values.      *)
LawPairs(t) ==
  (IF t.k = "bi" /\ t.name = "all"
   THEN {<<"all = not any not", t, NUn("not", NBi("any", t.x, NUn("not", t.body)))>>,
         <<"none = not any", NBi("none", t.x, t.body), NUn("not", NBi("any", t.x, t.body))>>,
         <<"one = (count = 1)", NBi("one", t.x, t.body), NBin("==", NBi("count", t.x, t.body), NInt(1))>>,
         <<"count = len filter", NBi("count", t.x, t.body), NLen(NBi("filter", t.x, t.body))>>,
         <<"len map = len", NLen(NBi("map", t.x, t.body)), NLen(t.x)>>,
         <<"filter keeps satisfying", NBi("all", NBi("filter", t.x, t.body), t.body), NBin("==", NInt(0), NInt(0))>>}
   ELSE {})
  \cup
  (IF t.k = "bin" /\ t.op = "in" /\ t.r.k = "bin" /\ t.r.op = ".." /\ ~HasCall(t.l)
   THEN {<<"in range = two-sided comparison", t, NBin("and", NBin(">=", t.l, t.r.l), NBin("<=", t.l, t.r.r))>>}
   ELSE {})
  \cup
  (IF t.k = "slice" /\ t.from.k # "none" /\ t.to.k = "none" /\ ~HasCall(t.from) /\ ~HasCall(t.x)
   THEN {<<"slicing partitions", NBin("+", NLen(NSlice(t.x, NNone, t.from)), NLen(t)), NLen(t.x)>>}
   ELSE {})

(* every identity also holds where its two sides sit inside a larger           *)
(* expression: as a later element of an array literal, and as the body of an   *)
(* enclosing closure (so an instruction sequence that leaves a stray operand    *)
(* below its result, invisible at the top level, is observed)                   *)
LawInstances(t) ==
  LET base == LawPairs(t)
  IN base
     \cup {<<lw[1] \o " (as an array element)", NArr(<<NInt(7), lw[2]>>), NArr(<<NInt(7), lw[3]>>)>> : lw \in base}
     \cup {<<lw[1] \o " (inside a closure)", NBi("map", NId("Ys"), lw[2]), NBi("map", NId("Ys"), lw[3])>> : lw \in base}

LawRun(a, b, asg) ==
  LET rho == EnvOf(asg)
      ea == Outcome(a, rho, DefaultBudget, {})
      eb == Outcome(b, rho, DefaultBudget, {})
      dvs == {d \in F_Devs : Outcome(a, rho, DefaultBudget, {d}) # ea}
  IN [env |-> asg, exp |-> ea, exp2 |-> eb, dev |-> [d \in dvs |-> Outcome(a, rho, DefaultBudget, {d})]]

InU(o) == o.ok \/ o.c # "outside"
LawCase(lw) == [law |-> lw[1], src |-> Src(lw[2]), src2 |-> Src(lw[3]), n |-> n,
                runs |-> {r \in {LawRun(lw[2], lw[3], asg) : asg \in Assignments(Mentions(lw[2]) \cup Mentions(lw[3]))} :
                            InU(r.exp) /\ InU(r.exp2)}]

(* the reference semantics itself satisfies the identities (checked by TLC): *)
(* both sides succeed with the same value, or the left side fails only where *)
(* the right side fails too or the failing operand is not evaluated by it    *)
LawsHold == Complete =>
  \A lw \in LawInstances(Tree) : \A r \in LawCase(lw).runs :
     (r.exp.ok /\ r.exp2.ok) => r.exp.v = r.exp2.v

EmitLaws == (Complete /\ EmitMode = "laws") => \A lw \in LawInstances(Tree) : PrintT(ToJson(LawCase(lw)))

(* C17: with `+` mapped to Add, compiling Src(Tree) must behave as the tree  *)
(* in which every int + int is the call Add(l, r) (Types!Overload): the call  *)
(* log shows each Add with its operands in order.                             *)
OvlTree == Overload(Tree, "")
OvlCase == [src |-> Src(Tree), osrc |-> Src(OvlTree), n |-> n, overloaded |-> OvlTree # Tree,
            cdz |-> HasConstDivZero(OvlTree), cbp |-> FALSE, runs |-> Runs(OvlTree)]
OvlTyped == Complete => TypeOf(Tree, "") = TreeTy
(* the same source compiled against another environment in which the function *)
(* named Add takes float64 parameters: there float + float is the call         *)
OvlTreeF == OverloadF(Tree, "")
OvlCaseF == [src |-> Src(Tree), osrc |-> Src(OvlTreeF), n |-> n, overloaded |-> OvlTreeF # Tree, alt |-> TRUE,
             cdz |-> HasConstDivZero(OvlTreeF), cbp |-> FALSE, runs |-> Runs(OvlTreeF)]
(* Generator scope (C17): the checker retypes the integer literals inside an   *)
(* arithmetic argument to the parameter type (catalogued Dev_ArgRetypeArithmetic, *)
(* C03's subject), which changes the operand types of a `+` below it; such      *)
(* sources - an arithmetic-shaped argument containing both a `+` and an integer *)
(* literal - are outside the families of this property.                         *)
RECURSIVE HasPlus(_), HasIntLit(_), ArgRetypes(_)
HasPlus(t) == (t.k = "bin" /\ t.op = "+") \/ \E i \in 1..Len(Kids(t)) : HasPlus(Kids(t)[i])
HasIntLit(t) == t.k = "int" \/ \E i \in 1..Len(Kids(t)) : HasIntLit(Kids(t)[i])
ArithShaped(t) == (t.k = "bin" /\ t.op \in {"+", "-", "*", "/"}) \/ (t.k = "un" /\ t.op \in {"+", "-"})
ArgRetypes(t) == (t.k \in {"call", "meth"} /\ \E i \in 1..Len(t.args) :
                     ArithShaped(t.args[i]) /\ HasPlus(t.args[i]) /\ HasIntLit(t.args[i]))
                 \/ \E i \in 1..Len(Kids(t)) : ArgRetypes(Kids(t)[i])

(* (a map environment types its members by their values: the dynamically typed *)
(* member Any has no static type there, so sources mentioning it are left out) *)
(* an overload table with two candidates: Add(int, int) first, then AddAny(interface{}, interface{}), which *)
(* every other pair of operand types matches (Types!OverloadT)                                            *)
OvlTreeT == OverloadT(Tree, "")
OvlCaseT == [src |-> Src(Tree), osrc |-> Src(OvlTreeT), n |-> n, overloaded |-> OvlTreeT # Tree, table |-> TRUE,
             cdz |-> HasConstDivZero(OvlTreeT), cbp |-> FALSE, runs |-> Runs(OvlTreeT)]
(* (AddAny returns a sequence: an equality one of whose operands contains a `+` would compare sequences of  *)
(* different Go types, which the language definition leaves open - generator scope, as in F_Guard)          *)
RECURSIVE EqOverPlus(_)
EqOverPlus(t) == (t.k = "bin" /\ t.op \in {"==", "!=", "in", "not in"} /\ (HasPlus(t.l) \/ HasPlus(t.r)))
                 \/ \E i \in 1..Len(Kids(t)) : EqOverPlus(Kids(t)[i])
EmitOvlT == (Complete /\ EmitMode = "ovlt" /\ ~ArgRetypes(Tree) /\ ~EqOverPlus(Tree)) => PrintT(ToJson(OvlCaseT))

EmitOvl == (Complete /\ EmitMode = "ovl" /\ ~ArgRetypes(Tree)) =>
             PrintT(ToJson(OvlCase)) /\ ("Any" \in Mentions(Tree) \/ PrintT(ToJson(OvlCaseF)))

(* C10: the traversal the documentation promises for the parser's tree of    *)
(* Src(Tree), and the text whose compilation the patching visitor must equal *)
WalkCase == [src |-> Src(Tree), n |-> n, walk |-> WalkSeq(Tree), nodes |-> EnterCount(Tree),
             psrc |-> Src(Patch(Tree)), patched |-> Patch(Tree) # Tree, cbp |-> HasConstBadPattern(Tree),
             envs |-> Assignments(Mentions(Tree))]
WalkBalanced == Complete => Balanced(WalkSeq(Tree), 1, <<>>) /\ Len(WalkSeq(Tree)) = 2 * EnterCount(Tree)
EmitWalk == (Complete /\ EmitMode = "walk") => PrintT(ToJson(WalkCase))

(* EmitMode "cases": print one JSON line per complete expression.          *)
(* EmitMode "count": only evaluate the reference semantics (timing/stats). *)
Emit == Complete =>
          CASE EmitMode = "cases" -> PrintT(ToJson(Case))
            [] EmitMode = "ovconst" ->    \* only [len(BigD) > 2, range, range]
                 (Tree.k = "arr" /\ Tree.xs[1] = BigDB.e /\ Tree.xs[2].k = "bin" /\ Tree.xs[3].k = "bin") => PrintT(ToJson(Case))
            [] EmitMode = "count" -> Cardinality(Runs(Tree)) >= 0
            [] OTHER -> TRUE
=============================================================================

------------------------------ MODULE History ------------------------------
(***************************************************************************)
(* Histories of runs on ONE reusable VM value (C07), and their purity      *)
(* (C09).  The state is the history so far, the machine state the reused   *)
(* VM is left in, and what each run returned.  One action:                 *)
(*                                                                         *)
(*   RunOn(i)  -- run pool item i (a program and an environment) on the    *)
(*                reused machine: VM!BeginRun (the prologue as designed)   *)
(*                followed by VM!Step to the end.                          *)
(*                                                                         *)
(* FreshEquiv is the property: every run on the reused machine returns     *)
(* what a fresh machine returns (= what the reference semantics assigns).  *)
(* The pool mixes plain successes, failures inside nested loops (scopes    *)
(* and operands left behind), allocating runs whose cumulative allocation  *)
(* crosses the budget many times over, and budget failures.                *)
(*                                                                         *)
(* With Dev_MemoryNotResetOnReuse in Devs the machine does what the pinned *)
(* vm.go did (the allocation counter survives the prologue); the outcome   *)
(* sequence under the deviation is emitted with each history so that a     *)
(* failing real history is attributed mechanically.                        *)
(***************************************************************************)
EXTENDS Compiler, Json

CONSTANTS MaxLen, Budget, EmitMode

XsV == Arr("int", <<IntV(1), IntV(2), IntV(3)>>)
Loop2 == NBi("all", NId("Xs"), NBi("any", NId("Xs"), NBin(">", NBin("/", NPtr, NId("I")), NInt(0))))
(* pool items: [t |-> tree, env |-> assignment] *)
Pool == <<
  [t |-> NBin("+", NId("I"), NInt(1)), env |-> [I |-> IntV(2)]],
  [t |-> NLen(NBin("..", NId("I"), NId("J"))), env |-> [I |-> IntV(1), J |-> IntV(3)]],
  [t |-> NLen(NBin("..", NId("I"), NId("J"))), env |-> [I |-> IntV(0), J |-> IntV(6)]],
  [t |-> Loop2, env |-> [Xs |-> XsV, I |-> IntV(0)]],
  [t |-> Loop2, env |-> [Xs |-> XsV, I |-> IntV(1)]],
  [t |-> NLen(NBi("map", NId("Xs"), NBin("+", NPtr, NInt(1)))), env |-> [Xs |-> XsV]],
  [t |-> NArr(<<NId("I"), NId("J")>>), env |-> [I |-> IntV(5), J |-> IntV(7)]],
  [t |-> NIdx(NId("Xs"), NId("I")), env |-> [Xs |-> XsV, I |-> IntV(4)]],
  [t |-> NLen(NBin("..", NId("J"), NId("I"))), env |-> [I |-> IntV(0), J |-> IntV(9)]],
  [t |-> NBi("filter", NBin("..", NInt(1), NId("J")), NBin(">", NPtr, NId("I"))), env |-> [I |-> IntV(1), J |-> IntV(4)]],
  \* allocates five elements, then fails for a reason other than the budget
  [t |-> NIdx(NBin("..", NId("I"), NId("J")), NInt(9)), env |-> [I |-> IntV(0), J |-> IntV(4)]],
  \* a function member that is a closure over its own environment value, in two environments
  [t |-> NCall("VarI", <<NInt(1)>>), env |-> [I |-> IntV(10)]],
  [t |-> NCall("VarI", <<NInt(1)>>), env |-> [I |-> IntV(20)]],
  \* a pattern computed at run time: a valid one, and one that is not a regular expression
  [t |-> NBin("matches", NId("S"), NId("T")), env |-> [S |-> Str("abc"), T |-> Str("b")]],
  [t |-> NBin("matches", NId("S"), NId("T")), env |-> [S |-> Str("abc"), T |-> Str("(")]],
  \* two ranges that together cross the budget; the first is the range item 3 builds
  [t |-> NBin("+", NLen(NBin("..", NId("I"), NId("J"))), NLen(NBin("..", NInt(1), NId("K")))),
   env |-> [I |-> IntV(0), J |-> IntV(6), K |-> IntV(3)]]
>>

VARIABLES hist,    \* sequence of pool indices
          mach,    \* machine state of the reused VM (as designed)
          machD,   \* machine state under the deviations
          outs,    \* outcome of each run on the reused machine (as designed)
          outsD    \* ... under the deviations
hvars == <<hist, mach, machD, outs, outsD>>

Devs == {"Dev_MemoryNotResetOnReuse"}

ProgOf(i) == CompileProgram(Pool[i].t, "typed", "")
FreshOutcome(i) == Outcome(Pool[i].t, EnvOf(Pool[i].env), Budget, {})

RunItem(s, i, dv) == RunFrom(BeginRun(s, Budget, dv), ProgOf(i), EnvOf(Pool[i].env), dv, 5000)

HInit == hist = <<>> /\ mach = Fresh(Budget) /\ machD = Fresh(Budget) /\ outs = <<>> /\ outsD = <<>>

RunOn(i) ==
  /\ Len(hist) < MaxLen
  /\ hist' = Append(hist, i)
  /\ mach' = RunItem(mach, i, {})
  /\ machD' = RunItem(machD, i, Devs)
  /\ outs' = Append(outs, VMOutcome(mach'))
  /\ outsD' = Append(outsD, VMOutcome(machD'))

HNext == \E i \in 1..Len(Pool) : RunOn(i)
HSpec == HInit /\ [][HNext]_hvars

SameRes(a, b) == a.ok = b.ok /\ (a.ok => a.v = b.v) /\ a.calls = b.calls

(* C07: each run on the reused machine returns what a fresh machine returns *)
FreshEquiv == \A k \in 1..Len(hist) : SameRes(outs[k], FreshOutcome(hist[k]))

(* the prologue leaves nothing of the previous run behind *)
PrologueResets == LET s == BeginRun(mach, Budget, {})
                  IN s.stack = <<>> /\ s.scopes = <<>> /\ s.memory = 0 /\ s.ip = 0

Strip(o) == IF o.ok THEN [ok |-> TRUE, v |-> o.v, calls |-> o.calls, need |-> 0]
            ELSE [ok |-> FALSE, c |-> o.c, calls |-> o.calls, need |-> 0]

HCase == [budget |-> Budget,
          runs |-> [k \in 1..Len(hist) |->
                     [src |-> Src(Pool[hist[k]].t), env |-> Pool[hist[k]].env,
                      exp |-> Strip(FreshOutcome(hist[k])),
                      dev |-> IF SameRes(outsD[k], outs[k]) THEN <<>>
                              ELSE [d \in Devs |-> Strip(outsD[k])]]]]

HEmit == (Len(hist) = MaxLen /\ EmitMode = "cases") => PrintT(ToJson(HCase))
=============================================================================
